"""Reach evidence with sys.monitoring (Python 3.12): LINE events on code objects of the
repository's policy rules; every location is disabled after its first hit, so the steady-
state cost is close to zero.  `hits` accumulates (filename, line) for the whole process;
`drain()` returns the locations first hit since the previous drain."""
from __future__ import annotations

import sys

from vf.core import REPO

_SRC = str(REPO / "src" / "_gettsim")
TOOL = 3
hits: set = set()
_new: list = []
_on = False


def _line(code, line):
    if code.co_filename.startswith(_SRC):
        key = (code.co_filename[len(_SRC) + 1:], line)
        if key not in hits:
            hits.add(key)
            _new.append(key)
    return sys.monitoring.DISABLE


def start():
    global _on
    if _on:
        return
    mon = sys.monitoring
    try:
        mon.use_tool_id(TOOL, "vf-linecov")
    except ValueError:
        pass
    mon.register_callback(TOOL, mon.events.LINE, _line)
    mon.set_events(TOOL, mon.events.LINE)
    _on = True


def drain():
    out = list(_new)
    _new.clear()
    return out


def rule_lines(f):
    """Executable lines of a rule body (without the def line and the docstring line(s))."""
    f = getattr(f, "__wrapped__", f)
    code = f.__code__
    lines = {l for (_, _, l) in code.co_lines() if l is not None and l > code.co_firstlineno}
    # drop docstring lines: the first statement if it is a string constant has no bytecode in 3.12
    return code.co_filename[len(_SRC) + 1:] if code.co_filename.startswith(_SRC) else None, sorted(lines)

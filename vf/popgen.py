"""Population generator for hostile but *valid* workloads (DESIGN.md section 2, `popgen`).

Valid means: unique non-negative p_id; pointers to existing persons or -1, never to
oneself; partner pointers symmetric and within one household; spouses are partners and
agree on `gemeinsam_veranlagt`; household-level inputs (`*_hh`, and the two location
inputs `wohnort_ost`, `mietstufe`) constant per household; documented dtypes; nobody is
both somebody's partner and an FG-eligible child of a co-resident parent.
"""
from __future__ import annotations

import numpy as np
import pandas as pd

POINTERS = [
    "p_id_ehepartner",
    "p_id_einstandspartner",
    "p_id_elternteil_1",
    "p_id_elternteil_2",
    "p_id_kindergeld_empf",
    "p_id_erziehgeld_empf",
    "p_id_betreuungsk_träger",
]

ARCHETYPES = [
    "single", "couple_m", "couple_u", "single_parent", "family_m", "family_u",
    "patchwork", "three_gen", "adult_child", "parent_elsewhere", "pensioner",
    "pens_couple", "mixed_age_couple", "big_family", "student_wg", "selfsufficient_kids",
]


def money_thresholds(params, lo=20.0, hi=400000.0):
    """Numeric leaves of the live parameter dictionary in a money-like range."""
    out = set()

    def walk(o):
        if isinstance(o, dict):
            for k, v in o.items():
                if k in ("rounding", "datum"):
                    continue
                walk(v)
        elif isinstance(o, np.ndarray):
            if o.dtype.kind in "fi":
                for x in o.ravel():
                    walk(float(x))
        elif isinstance(o, (int, float, np.integer, np.floating)) and not isinstance(o, bool):
            x = float(o)
            if np.isfinite(x) and lo <= abs(x) <= hi:
                out.add(round(abs(x), 2))

    walk(params)
    return sorted(out)


class _Builder:
    def __init__(self, rng, year):
        self.rng = rng
        self.year = year
        self.rows = []
        self.hh = -1

    def new_hh(self):
        self.hh += 1
        return self.hh

    def person(self, age, **kw):
        d = dict(
            p_id=len(self.rows), hh_id=self.hh, alter=int(age), kind=False, rentner=False,
            in_ausbildung=False, p_id_ehepartner=-1, p_id_einstandspartner=-1,
            p_id_elternteil_1=-1, p_id_elternteil_2=-1, eigenbedarf_gedeckt=False,
            role="adult",
        )
        d.update(kw)
        self.rows.append(d)
        return d

    def couple(self, a, b, married):
        a["p_id_einstandspartner"] = b["p_id"]
        b["p_id_einstandspartner"] = a["p_id"]
        if married:
            a["p_id_ehepartner"] = b["p_id"]
            b["p_id_ehepartner"] = a["p_id"]

    def child(self, age, p1=None, p2=None, **kw):
        age = int(age)
        kw.setdefault("kind", age < 18 or (age < 25 and self.rng.random() < 0.5))
        kw.setdefault("in_ausbildung", bool(age >= 6 and (age < 16 or self.rng.random() < 0.6)))
        if self.rng.random() < 0.5 and p1 is not None and p2 is not None:
            p1, p2 = p2, p1  # either parent may be listed first
        return self.person(
            age, role="child",
            p_id_elternteil_1=-1 if p1 is None else p1["p_id"],
            p_id_elternteil_2=-1 if p2 is None else p2["p_id"], **kw,
        )


def _build_structure(rng, year, n_hh, archetypes=None, cycle=False):
    b = _Builder(rng, year)
    R = rng
    kinds = archetypes or ARCHETYPES
    chosen = []
    for _i_hh in range(n_hh):
        k = kinds[_i_hh % len(kinds)] if cycle else str(R.choice(kinds))
        chosen.append(k)
        b.new_hh()
        if k == "single":
            b.person(R.integers(18, 67))
        elif k in ("couple_m", "couple_u"):
            a = b.person(R.integers(18, 67)); c = b.person(R.integers(18, 67))
            b.couple(a, c, k == "couple_m")
        elif k == "mixed_age_couple":
            a = b.person(R.integers(64, 90), rentner=True); c = b.person(R.integers(30, 66))
            b.couple(a, c, bool(R.random() < 0.7))
            if R.random() < 0.4:
                b.child(R.integers(0, 18), c, None)
        elif k == "single_parent":
            a = b.person(R.integers(20, 60))
            for _i in range(R.integers(1, 4)):
                b.child(R.integers(0, 25), a)
        elif k in ("family_m", "family_u"):
            a = b.person(R.integers(22, 60)); c = b.person(R.integers(22, 60))
            b.couple(a, c, k == "family_m")
            for _i in range(R.integers(1, 4)):
                b.child(R.integers(0, 25), a, c)
        elif k == "big_family":
            a = b.person(R.integers(30, 55)); c = b.person(R.integers(30, 55))
            b.couple(a, c, True)
            for _i in range(R.integers(4, 11)):
                b.child(R.integers(0, 20), a, c)
        elif k == "patchwork":
            # step-children on either side; the partner listed first may be either one
            a = b.person(R.integers(25, 55))
            kids_first = R.random() < 0.3
            if kids_first:
                b.child(R.integers(0, 18), a)
            c = b.person(R.integers(25, 55)); b.couple(a, c, bool(R.random() < 0.5))
            b.child(R.integers(0, 18), c)
            if not kids_first or R.random() < 0.5:
                b.child(R.integers(0, 18), a)
            if R.random() < 0.5:
                b.child(R.integers(0, 10), a, c)
        elif k == "three_gen":
            g1 = b.person(R.integers(55, 90), rentner=bool(R.random() < 0.6))
            if R.random() < 0.6:
                g2 = b.person(R.integers(55, 90), rentner=bool(R.random() < 0.6))
                b.couple(g1, g2, True)
            else:
                g2 = None
            p = b.person(R.integers(17, 40), role="child" if False else "adult",
                         p_id_elternteil_1=g1["p_id"],
                         p_id_elternteil_2=-1 if g2 is None else g2["p_id"])
            for _i in range(R.integers(1, 3)):
                b.child(R.integers(0, 12), p)
        elif k == "adult_child":
            a = b.person(R.integers(45, 66))
            if R.random() < 0.5:
                c = b.person(R.integers(45, 66)); b.couple(a, c, True)
            else:
                c = None
            for _i in range(R.integers(1, 3)):
                b.child(R.integers(18, 32), a, c)
        elif k == "parent_elsewhere":
            a = b.person(R.integers(25, 55))
            kid1 = b.child(R.integers(0, 18), a, None)
            b.new_hh()
            o = b.person(R.integers(25, 55))
            kid1["p_id_elternteil_2"] = o["p_id"]
            if R.random() < 0.5:
                b.child(R.integers(0, 18), o, None)
        elif k == "pensioner":
            b.person(R.integers(60, 100), rentner=True)
        elif k == "pens_couple":
            a = b.person(R.integers(63, 100), rentner=True)
            c = b.person(R.integers(60, 100), rentner=bool(R.random() < 0.8))
            b.couple(a, c, bool(R.random() < 0.85))
        elif k == "student_wg":
            for _i in range(R.integers(2, 4)):
                b.person(R.integers(18, 30), in_ausbildung=bool(R.random() < 0.7))
        elif k == "selfsufficient_kids":
            a = b.person(R.integers(35, 60))
            if R.random() < 0.6:
                c = b.person(R.integers(35, 60)); b.couple(a, c, bool(R.random() < 0.7))
            else:
                c = None
            for _i in range(R.integers(2, 5)):
                b.child(R.integers(10, 25), a, c, eigenbedarf_gedeckt=bool(R.random() < 0.6))
    return b.rows, chosen


def _pick(rng, n, choices, p_uniform=0.0, lo=0.0, hi=1.0):
    ch = np.asarray(choices, dtype=float)
    out = ch[rng.integers(0, len(ch), n)]
    if p_uniform > 0:
        u = rng.random(n) < p_uniform
        out = np.where(u, np.round(rng.uniform(lo, hi, n), 2), out)
    return out


def population(rng, date, n_hh=8, params=None, archetypes=None, corner=None,
               heterogeneous=False, cycle=False, rows=None):
    """Build a valid population DataFrame with every documented input column.

    corner: None | "zero" | "huge" | "negative" - value regime for C16-style workloads.
    heterogeneous: every individual-level input is drawn per person (C15).
    """
    from _gettsim.config import TYPES_INPUT_VARIABLES

    year = date.year
    if rows is None:
        rows, chosen = _build_structure(rng, year, n_hh, archetypes, cycle)
    else:
        chosen = ["custom structure"]
    df = pd.DataFrame(rows)
    n = len(df)
    R = rng
    role_child = (df.pop("role") == "child").to_numpy()
    alter = df["alter"].to_numpy()
    adult = ~df["kind"].to_numpy() & (alter >= 16)
    rentner = df["rentner"].to_numpy()
    hh = df["hh_id"].to_numpy()
    n_hh_real = hh.max() + 1

    thr = money_thresholds(params) if params is not None else []
    pool = [0.0, 0.0, 1.0, 100.0, 450.0, 450.01, 520.0, 538.0, 1000.0, 2000.0, 3000.0, 6000.0]
    for t in thr:
        for v in (t, t / 12.0, t * 12.0):
            if 50 <= v <= 12000:
                pool += [round(v, 2), round(v - 0.01, 2), round(v + 0.01, 2), round(v + 1, 2)]
    pool = np.array(sorted(set(pool)))

    def money(mask, p_zero=0.4, scale=1.0):
        v = pool[R.integers(0, len(pool), n)] * scale
        u = R.random(n)
        v = np.where(u < 0.35, np.round(R.uniform(0, 7000 * scale, n), 2), v)
        v = np.where(R.random(n) < p_zero, 0.0, v)
        if corner == "zero":
            v = np.zeros(n)
        elif corner == "huge":
            v = np.where(R.random(n) < 0.5, v, np.round(R.choice([1e5, 1e6, 2.5e6], n) * scale, 2))
        return np.where(mask, v, 0.0).astype(float)

    df["weiblich"] = R.random(n) < 0.5
    df["geburtsmonat"] = R.integers(1, 13, n)
    df["geburtstag"] = R.integers(1, 29, n)
    df["geburtsjahr"] = year - alter - (df["geburtsmonat"].to_numpy() > 6)
    ret_age = R.integers(60, 68, n)
    df["jahr_renteneintr"] = np.where(
        rentner, np.minimum(df["geburtsjahr"] + ret_age, year), df["geburtsjahr"] + 67
    )
    df["monat_renteneintr"] = R.integers(1, 13, n)
    df["gemeinsam_veranlagt"] = False
    # spouses agree on joint assessment
    for i in range(n):
        j = df.at[i, "p_id_ehepartner"]
        if j >= 0 and j > df.at[i, "p_id"]:
            val = bool(R.random() < 0.8)
            df.at[i, "gemeinsam_veranlagt"] = val
            df.loc[df.p_id == j, "gemeinsam_veranlagt"] = val
    working = adult & (~rentner | (R.random(n) < 0.3))
    df["bruttolohn_m"] = money(working, p_zero=0.25)
    df["bruttolohn_vorj_m"] = np.where(
        R.random(n) < 0.5, df["bruttolohn_m"], money(working, p_zero=0.3)
    )
    df["arbeitsstunden_w"] = np.where(
        df["bruttolohn_m"] > 0, R.choice([5.0, 10.0, 20.0, 30.0, 38.5, 40.0, 60.0], n), 0.0
    )
    df["eink_selbst_m"] = money(adult, p_zero=0.8)
    df["selbstständig"] = (df["eink_selbst_m"] > 0) & (R.random(n) < 0.8)
    df["kapitaleink_brutto_m"] = money(adult, p_zero=0.7, scale=0.2)
    ev = money(adult, p_zero=0.8, scale=0.3)
    if corner == "negative" or corner is None:
        ev = np.where(adult & (R.random(n) < (0.5 if corner else 0.05)), -np.round(R.uniform(1, 2000, n), 2), ev)
    df["eink_vermietung_m"] = ev
    df["sonstig_eink_m"] = money(adult, p_zero=0.85, scale=0.2)
    wealth = np.round(R.choice([0, 0, 1000, 5000, 9999.99, 10000, 15000, 40000, 60000, 150000, 1e6], n), 2)
    if corner == "huge":
        wealth = np.where(R.random(n) < 0.5, 1e9, wealth)
    if corner == "zero":
        wealth = np.zeros(n)
    df["vermögen_bedürft"] = np.where(adult | (R.random(n) < 0.1), wealth, 0.0).astype(float)
    df["priv_rente_m"] = money(rentner, p_zero=0.6, scale=0.3)
    df["priv_rentenv_beitr_m"] = money(adult & ~rentner, p_zero=0.7, scale=0.1)
    df["in_priv_krankenv"] = adult & (R.random(n) < 0.12)

    # household-level inputs
    def per_hh(vals):
        return np.asarray(vals)[hh]

    rent = R.choice([0.0, 250.0, 400.0, 555.55, 800.0, 1500.0, 4000.0], n_hh_real)
    if corner == "zero":
        rent = np.zeros(n_hh_real)
    df["bruttokaltmiete_m_hh"] = per_hh(rent).astype(float)
    df["heizkosten_m_hh"] = per_hh(R.choice([0.0, 40.0, 95.5, 200.0], n_hh_real)).astype(float)
    df["wohnfläche_hh"] = per_hh(R.choice([12.0, 45.0, 60.0, 90.0, 130.0, 250.0], n_hh_real)).astype(float)
    df["bewohnt_eigentum_hh"] = per_hh(R.random(n_hh_real) < 0.25)
    df["immobilie_baujahr_hh"] = per_hh(R.choice([1900, 1965, 1966, 1991, 1992, 2001, 2010, 2020], n_hh_real))
    df["wohnort_ost"] = per_hh(R.random(n_hh_real) < 0.35)
    df["mietstufe"] = per_hh(R.integers(1, 8 if year >= 2020 else 7, n_hh_real))

    # children / parents
    p1 = df["p_id_elternteil_1"].to_numpy()
    p2 = df["p_id_elternteil_2"].to_numpy()
    pid = df["p_id"].to_numpy()
    hh_of = dict(zip(pid, hh))
    age_of = dict(zip(pid, alter))
    has_par = (p1 >= 0) | (p2 >= 0)
    first_par = np.where(p1 >= 0, p1, p2)
    # Kindergeld recipient: a co-resident parent if any, for children below 25
    kg = np.full(n, -1)
    for i in range(n):
        if has_par[i] and alter[i] < 25:
            cands = [p for p in (p1[i], p2[i]) if p >= 0]
            same = [p for p in cands if hh_of[p] == hh[i]] or cands
            kg[i] = same[R.integers(0, len(same))] if R.random() < 0.9 else -1
    df["p_id_kindergeld_empf"] = kg
    df["p_id_erziehgeld_empf"] = np.where((alter < 3) & has_par, first_par, -1)
    df["p_id_betreuungsk_träger"] = np.where((alter < 14) & has_par, first_par, -1)
    df["betreuungskost_m"] = np.where(
        (alter < 14) & has_par, R.choice([0.0, 0.0, 120.0, 333.33, 600.0], n), 0.0
    )
    is_parent = np.isin(pid, np.concatenate([p1, p2]))
    df["ges_pflegev_hat_kinder"] = is_parent | (adult & (R.random(n) < 0.2))
    # single parent: adult without partner with a minor child in the household
    minor_kid_of = set()
    for i in range(n):
        if alter[i] < 18:
            for p in (p1[i], p2[i]):
                if p >= 0 and hh_of[p] == hh[i]:
                    minor_kid_of.add(p)
    df["alleinerz"] = [
        bool(pid[i] in minor_kid_of and df.at[i, "p_id_einstandspartner"] < 0) for i in range(n)
    ]
    df["kind_unterh_anspr_m"] = np.where(
        (alter < 18) & (p2 >= 0) & np.array([hh_of.get(p, -9) != h for p, h in zip(p2, hh)]),
        R.choice([0.0, 250.0, 400.0], n), 0.0)
    df["kind_unterh_erhalt_m"] = np.where(
        df["kind_unterh_anspr_m"] > 0, df["kind_unterh_anspr_m"] * R.choice([0.0, 0.5, 1.0], n), 0.0)
    # eigenbedarf only for FG-eligible children
    fg_child = has_par & (alter < 25) & ~is_parent & np.array(
        [any(p >= 0 and hh_of[p] == h for p in (a, b_)) for a, b_, h in zip(p1, p2, hh)])
    df["eigenbedarf_gedeckt"] = df["eigenbedarf_gedeckt"].to_numpy() & fg_child

    # pension-related histories
    yrs_work = np.clip(alter - 20, 0, 47)
    df["entgeltp_west"] = np.where(adult, np.round(yrs_work * R.uniform(0, 1.8, n), 4), 0.0)
    df["entgeltp_ost"] = np.where(adult & df["wohnort_ost"].to_numpy(), np.round(yrs_work * R.uniform(0, 0.8, n), 4), 0.0)
    df["grundr_zeiten"] = (yrs_work * 12 * R.choice([0, 0.5, 0.7, 0.85, 1.0], n)).astype(int)
    df["grundr_bew_zeiten"] = (df["grundr_zeiten"] * R.choice([0, 0.3, 0.9, 1.0], n)).astype(int)
    df["grundr_entgeltp"] = np.round(df["entgeltp_west"] * R.choice([0.0, 0.3, 0.8, 1.0], n), 4)
    for c, f in [("m_pflichtbeitrag", 12.0), ("m_freiw_beitrag", 1.0), ("m_mutterschutz", 0.3),
                 ("m_arbeitsunfähig", 0.5), ("m_krank_ab_16_bis_24", 0.2), ("m_arbeitsl", 1.0),
                 ("m_ausbild_suche", 0.2), ("m_schul_ausbild", 2.0), ("m_geringf_beschäft", 1.0),
                 ("m_alg1_übergang", 0.2), ("m_ersatzzeit", 0.1), ("m_kind_berücks_zeit", 2.0),
                 ("m_pfleg_berücks_zeit", 0.3)]:
        df[c] = np.where(adult, np.floor(yrs_work * f * R.choice([0, 0, 0.5, 1.0], n)), 0.0).astype(float)
    df["y_pflichtbeitr_ab_40"] = np.where(adult, np.clip(alter - 40, 0, 27) * R.choice([0.0, 0.5, 1.0], n), 0.0).astype(float)
    df["pflichtbeitr_8_in_10"] = adult & (R.random(n) < 0.5)
    df["arbeitsl_1y_past_585"] = adult & (alter >= 58) & (R.random(n) < 0.3)
    df["vertra_arbeitsl_1997"] = adult & (R.random(n) < 0.1)
    df["vertra_arbeitsl_2006"] = adult & (R.random(n) < 0.1)
    df["höchster_bruttolohn_letzte_15_jahre_vor_rente_y"] = np.where(
        adult, np.maximum(df["bruttolohn_m"] * 12, np.round(R.uniform(0, 90000, n), 2)), 0.0)
    df["voll_erwerbsgemind"] = adult & ~rentner & (alter >= 22) & (alter < 63) & (R.random(n) < 0.06)
    df["teilw_erwerbsgemind"] = adult & ~rentner & (alter >= 22) & (alter < 63) & ~df["voll_erwerbsgemind"].to_numpy() & (R.random(n) < 0.05)
    # a disability pension is drawn from a year in the past (age at entry <= current age, and not before 21:
    # five years of contributions are required)
    em = df["voll_erwerbsgemind"].to_numpy() | df["teilw_erwerbsgemind"].to_numpy()
    entry_age = np.minimum(alter, np.maximum(21, alter - R.integers(0, 15, n)))
    df["jahr_renteneintr"] = np.where(em, df["geburtsjahr"] + entry_age, df["jahr_renteneintr"])
    df["behinderungsgrad"] = R.choice([0, 0, 0, 0, 20, 30, 50, 80, 100], n)
    df["schwerbeh_g"] = (df["behinderungsgrad"] >= 50) & (R.random(n) < 0.7)

    # unemployment, parental benefits
    df["arbeitssuchend"] = adult & ~rentner & (R.random(n) < 0.2)
    df["anwartschaftszeit"] = df["arbeitssuchend"] & (R.random(n) < 0.8)
    df["m_durchg_alg1_bezug"] = np.where(df["arbeitssuchend"], R.choice([0.0, 1.0, 6.0, 11.0, 12.0, 24.0], n), 0.0)
    df["sozialv_pflicht_5j"] = np.where(adult, R.choice([0.0, 11.0, 12.0, 24.0, 36.0, 48.0, 60.0], n), 0.0)
    # the qualifying period (Anwartschaftszeit) requires at least 12 months of compulsory insurance
    df["sozialv_pflicht_5j"] = np.where(df["anwartschaftszeit"], np.maximum(df["sozialv_pflicht_5j"], 12.0), df["sozialv_pflicht_5j"])
    df["bürgerg_bezug_vorj"] = R.random(n) < 0.5
    has_baby = np.isin(pid, np.concatenate([p1[alter < 3], p2[alter < 3]]))
    df["elterngeld_claimed"] = has_baby & (R.random(n) < 0.7)
    df["elterngeld_nettoeinkommen_vorjahr_m"] = money(adult, p_zero=0.3, scale=0.7)
    df["elterngeld_zu_verst_eink_vorjahr_y_sn"] = 0.0
    df["monate_elterngeldbezug"] = np.where(has_baby, R.integers(0, 15, n), 0)
    df["budgetsatz_erzieh"] = has_baby & (R.random(n) < 0.3)
    married = df["p_id_ehepartner"].to_numpy() >= 0
    df["steuerklasse"] = np.where(R.random(n) < 0.06, 6, np.where(married, R.choice([3, 4, 5], n), np.where(df["alleinerz"], 2, 1)))

    if heterogeneous:
        # members of every unit differ in every individual-level input where validity allows
        df["bürgerg_bezug_vorj"] = (np.arange(n) % 2 == 0)
        df["vermögen_bedürft"] = df["vermögen_bedürft"] + np.where(adult, np.arange(n) * 7.0, 0.0)

    for col, t in TYPES_INPUT_VARIABLES.items():
        if col not in df:
            df[col] = False if t is bool else (0 if t is int else 0.0)
    # sn-level input must be constant within spouses filing jointly: keep 0.0 (documented input)
    for col, t in TYPES_INPUT_VARIABLES.items():
        df[col] = df[col].astype({bool: bool, int: np.int64, float: np.float64}[t])
    df = df[list(TYPES_INPUT_VARIABLES)]
    df.attrs["archetypes"] = chosen
    return df


# ------------------------------------------------------------------ transformations
def relabel(df, pmap=None, hmap=None):
    """Consistently relabel p_id (and every pointer column) and hh_id."""
    out = df.copy()
    if pmap is not None:
        m = dict(pmap)
        m[-1] = -1
        out["p_id"] = df["p_id"].map(m).astype(np.int64)
        for c in POINTERS:
            if c in df:
                out[c] = df[c].map(m).astype(np.int64)
    if hmap is not None:
        out["hh_id"] = df["hh_id"].map(dict(hmap)).astype(np.int64)
    return out


def random_injective(rng, keys, hi):
    vals = rng.choice(hi, size=len(keys), replace=False)
    return {int(k): int(v) for k, v in zip(keys, vals)}


def concat_disjoint(a, b, rng=None, mode="after"):
    """A ++ B with disjoint ids (B's ids shifted). mode: after | before | interleave."""
    off_p = int(a["p_id"].max()) + 1 + (0 if rng is None else int(rng.integers(0, 50)))
    off_h = int(a["hh_id"].max()) + 1 + (0 if rng is None else int(rng.integers(0, 50)))
    bp = {int(k): int(k) + off_p for k in b["p_id"]}
    bh = {int(k): int(k) + off_h for k in b["hh_id"].unique()}
    b2 = relabel(b, bp, bh)
    if mode == "after":
        j = pd.concat([a, b2], ignore_index=True)
    elif mode == "before":
        j = pd.concat([b2, a], ignore_index=True)
    else:
        tag = np.concatenate([np.zeros(len(a)), np.ones(len(b2))])
        j = pd.concat([a, b2], ignore_index=True)
        pos = np.concatenate([
            np.sort(rng.random(len(a))), np.sort(rng.random(len(b2)))
        ])
        j = j.iloc[np.argsort(pos, kind="stable")].reset_index(drop=True)
        del tag
    for c in a.columns:
        j[c] = j[c].astype(a[c].dtype)
    return j


def describe(df):
    """Compact, JSON-friendly description of a population (for evidence samples)."""
    return {
        "persons": int(len(df)),
        "households": int(df["hh_id"].nunique()),
        "archetypes": list(df.attrs.get("archetypes", []))[:12],
        "rows_head": [
            {k: (v.item() if hasattr(v, "item") else v) for k, v in r.items()}
            for r in df[["p_id", "hh_id", "alter", "p_id_einstandspartner", "p_id_elternteil_1",
                         "p_id_elternteil_2", "bruttolohn_m"]].head(4).to_dict("records")
        ],
    }


def digest(df):
    import hashlib

    h = hashlib.sha1()
    for c in df.columns:
        h.update(c.encode())
        h.update(np.ascontiguousarray(df[c].to_numpy()).tobytes())
    return h.hexdigest()[:16]


def branch_reach(rng, df, date, params):
    """Overwrite some persons' inputs so that rarely entered branches are reached while the
    population stays valid (see C08)."""
    df = df.copy()
    n = len(df)
    R = rng
    alter = df["alter"].to_numpy()
    year = date.year
    # early retirees with earnings around / above the additional-earnings limits
    early = (alter >= 60) & (alter <= 67) & (R.random(n) < 0.6)
    df.loc[early, "rentner"] = True
    df.loc[early, "jahr_renteneintr"] = np.minimum(df.loc[early, "geburtsjahr"] + R.integers(60, 66, int(early.sum())), year)
    df.loc[early, "bruttolohn_m"] = R.choice([0.0, 400.0, 525.0, 526.0, 1200.0, 3000.0, 4000.0, 9000.0], int(early.sum()))
    df.loc[early, "höchster_bruttolohn_letzte_15_jahre_vor_rente_y"] = R.choice([0.0, 20000.0, 60000.0], int(early.sum()))
    # children / young adults in the parental household with self-employment income but no wage
    young = (alter >= 15) & (alter < 25) & (df["p_id_elternteil_1"].to_numpy() >= 0) & (R.random(n) < 0.4)
    df.loc[young, "eink_selbst_m"] = R.choice([150.0, 400.0, 1200.0], int(young.sum()))
    df.loc[young, "bruttolohn_m"] = 0.0
    df.loc[young, "selbstständig"] = True
    return df


def replicate_with_wages(base, wages, column="bruttolohn_m", who=0):
    """Copies of the (few-household) population `base`, one per wage, with disjoint ids; in copy i the
    person in row `who` earns wages[i].  Used for sweeps along one input."""
    wages = np.asarray(wages, dtype=float)
    m, k = len(base), len(wages)
    n_p = int(base["p_id"].max()) + 1
    n_h = int(base["hh_id"].max()) + 1
    idx = np.tile(np.arange(m), k)
    off = np.repeat(np.arange(k), m)
    out = base.iloc[idx].reset_index(drop=True)
    out["p_id"] = out["p_id"].to_numpy() + off * n_p
    for c in POINTERS:
        if c in out:
            v = out[c].to_numpy()
            out[c] = np.where(v >= 0, v + off * n_p, v)
    out["hh_id"] = out["hh_id"].to_numpy() + off * n_h
    col = out[column].to_numpy().astype(float).copy()
    col[np.arange(k) * m + who] = wages
    out[column] = col
    for c in base.columns:
        out[c] = out[c].astype(base[c].dtype)
    return out


def domain_sweep(rng, date, params):
    """A population in which the table-driven inputs run through their whole documented domain:
    every age 0..100 (children attached to a parent), every birth cohort 1925..1975 among pensioners and
    early retirees with retirement ages 60..70, household sizes 1..12 x every Mietstufe, every tax class,
    every degree of disability.  Everything else as in `population`."""
    year = date.year
    b = _Builder(rng, year)
    R = rng
    n_ms = 7 if year >= 2020 else 6
    meta = {}
    # ages: adults alone, minors with a single parent
    for age in range(0, 101):
        b.new_hh()
        if age < 18:
            par = b.person(int(min(60, age + 25)))
            b.child(age, par)
        else:
            b.person(age, rentner=bool(age >= 67 or (age >= 63 and R.random() < 0.5)))
    # pension cohorts x retirement ages
    cohort_rows = []
    for gj in range(max(1925, year - 100), year - 59):
        b.new_hh()
        p = b.person(year - gj, rentner=True)
        cohort_rows.append((p["p_id"], gj, int(R.integers(60, 71))))
    # household sizes x Mietstufe
    size_rows = []
    for size in range(1, 13):
        for ms in range(1, n_ms + 1):
            b.new_hh()
            a = b.person(int(R.integers(30, 55)))
            members = [a]
            if size >= 2:
                c = b.person(int(R.integers(30, 55)))
                b.couple(a, c, True)
                members.append(c)
            for k in range(size - 2):
                members.append(b.child(int(R.integers(0, 18)), a, members[1]))
            size_rows.append((a["hh_id"], ms))
    df = population(rng, date, params=params, rows=b.rows)
    pid = df["p_id"].to_numpy()
    pos = {int(p): i for i, p in enumerate(pid)}
    for p, gj, ret_age in cohort_rows:
        i = pos[p]
        df.at[i, "geburtsjahr"] = gj
        df.at[i, "alter"] = year - gj
        df.at[i, "jahr_renteneintr"] = min(gj + ret_age, year)
        df.at[i, "geburtsmonat"] = int(R.integers(1, 13))
        df.at[i, "voll_erwerbsgemind"] = False
        df.at[i, "teilw_erwerbsgemind"] = False
    ms_of = dict(size_rows)
    df["mietstufe"] = [ms_of.get(int(h), int(m)) for h, m in zip(df["hh_id"], df["mietstufe"])]
    adult = (df["alter"] >= 18).to_numpy()
    df["steuerklasse"] = np.where(adult, (np.arange(len(df)) % 6) + 1, 1)
    df["steuerklasse"] = np.where((df["p_id_ehepartner"] < 0) & df["steuerklasse"].isin([3, 4, 5]), 1, df["steuerklasse"])
    df["behinderungsgrad"] = (np.arange(len(df)) % 11) * 10
    df["schwerbeh_g"] = df["behinderungsgrad"] >= 50
    for c, t in {"alter": np.int64, "geburtsjahr": np.int64, "jahr_renteneintr": np.int64, "mietstufe": np.int64,
                 "steuerklasse": np.int64, "behinderungsgrad": np.int64, "geburtsmonat": np.int64}.items():
        df[c] = df[c].astype(t)
    return df


def historical_supplement(df, date, rng=None):
    """Before 2015 several branches are not implemented (pension formula for today's cohorts, Elterngeld before 2011,
    Unterhaltsvorschuss before 2009): a user of those dates supplies the amounts as data columns.  Returns a copy with
    ges_rente_m (and, where the rule is missing, elterngeld_m / unterhaltsvors_m) added, so that the rules
    downstream of them (contributions, taxable income, transfers) are computable."""
    d = df.copy()
    n = len(d)
    r = rng.random(n) if rng is not None else (np.arange(n) * 0.6180339887498949) % 1.0
    d["ges_rente_m"] = np.where(d["rentner"].to_numpy(), np.round(400.0 + 1400.0 * r, 2), 0.0)
    if date.year < 2011:
        d["elterngeld_m"] = np.where((d["alter"].to_numpy() >= 20) & (d["alter"].to_numpy() < 45) & (r < 0.15), 300.0, 0.0)
    if date.year < 2009:
        d["unterhaltsvors_m"] = 0.0
    return d

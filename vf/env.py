"""Access to the system under test (imported from VERIF_REPO/src) plus harness-side helpers:
validated YAML memo, cached environments, node listing, node classification."""
from __future__ import annotations

import copy
import datetime
import hashlib
import os
import pickle
import sys
import warnings
from pathlib import Path

from vf.core import REPO, bootstrap_paths

bootstrap_paths()
warnings.filterwarnings("ignore")

import numpy as np  # noqa: E402
import pandas as pd  # noqa: E402
import yaml as _yaml  # noqa: E402

import _gettsim  # noqa: E402

assert Path(_gettsim.__file__).resolve().is_relative_to(REPO), (
    f"_gettsim imported from {_gettsim.__file__}, expected under {REPO}"
)

from _gettsim import policy_environment as _pe  # noqa: E402
from _gettsim.config import (  # noqa: E402
    DEFAULT_TARGETS,
    INTERNAL_PARAMS_GROUPS,
    RESOURCE_DIR,
    SUPPORTED_GROUPINGS,
    TYPES_INPUT_VARIABLES,
)
from _gettsim.functions_loader import load_and_check_functions  # noqa: E402
from _gettsim.interface import compute_taxes_and_transfers, set_up_dag  # noqa: E402
from _gettsim.policy_environment import set_up_policy_environment  # noqa: E402

PARAM_DIR = RESOURCE_DIR / "parameters"

# ----------------------------------------------------------------------- YAML memo
_MEMO: dict[str, bytes] = {}
MEMO_STATS = {"hits": 0, "misses": 0}


class _YamlMemo:
    """Stands in for the `yaml` module inside _gettsim.policy_environment: memoises
    yaml.load by text digest and returns a fresh (unpickled) object each time, so nothing
    is shared between calls.  Validated by `validate_memo`."""

    CLoader = _yaml.CLoader

    def __getattr__(self, name):
        return getattr(_yaml, name)

    @staticmethod
    def load(text, Loader=None):  # noqa: N803
        key = hashlib.sha1(text.encode() if isinstance(text, str) else text).hexdigest()
        blob = _MEMO.get(key)
        if blob is None:
            MEMO_STATS["misses"] += 1
            obj = _yaml.load(text, Loader=Loader or _yaml.CLoader)
            _MEMO[key] = pickle.dumps(obj, protocol=pickle.HIGHEST_PROTOCOL)
            return obj
        MEMO_STATS["hits"] += 1
        return pickle.loads(blob)


def install_memo():
    _pe.yaml = _YamlMemo()


def uninstall_memo():
    _pe.yaml = _yaml


if os.environ.get("VERIF_NO_MEMO") != "1":
    install_memo()


def deep_equal(a, b, path=""):
    """Structural equality incl. types and array bytes; returns None or the first path
    that differs."""
    if type(a) is not type(b):
        # numpy scalar vs python scalar are different on purpose
        return f"{path}: type {type(a).__name__} != {type(b).__name__}"
    if isinstance(a, dict):
        if list(a.keys()) != list(b.keys()):
            if set(a.keys()) != set(b.keys()):
                return f"{path}: keys {sorted(map(str, set(a) ^ set(b)))[:5]} differ"
        for k in a:
            r = deep_equal(a[k], b[k], f"{path}/{k}")
            if r:
                return r
        return None
    if isinstance(a, (list, tuple)):
        if len(a) != len(b):
            return f"{path}: len {len(a)} != {len(b)}"
        for i, (x, y) in enumerate(zip(a, b)):
            r = deep_equal(x, y, f"{path}[{i}]")
            if r:
                return r
        return None
    if isinstance(a, np.ndarray):
        if a.dtype != b.dtype or a.shape != b.shape:
            return f"{path}: array dtype/shape {a.dtype}{a.shape} != {b.dtype}{b.shape}"
        if a.tobytes() != b.tobytes():
            return f"{path}: array values differ {a!r} vs {b!r}"
        return None
    if isinstance(a, float) or isinstance(a, np.floating):
        if (a != a) and (b != b):
            return None
        return None if a == b else f"{path}: {a!r} != {b!r}"
    if callable(a):
        return None if a is b else f"{path}: different function objects"
    try:
        return None if a == b else f"{path}: {a!r} != {b!r}"
    except Exception:  # noqa: BLE001
        return None if repr(a) == repr(b) else f"{path}: {a!r} != {b!r}"


def validate_memo(dates):
    """Compare set-ups with and without the memo. Returns list of discrepancies."""
    bad = []
    for d in dates:
        install_memo()
        p1, f1 = set_up_policy_environment(d)
        uninstall_memo()
        p2, f2 = set_up_policy_environment(d)
        install_memo()
        r = deep_equal(p1, p2, "params") or deep_equal(
            {k: f1[k] for k in sorted(f1)}, {k: f2[k] for k in sorted(f2)}, "functions"
        )
        if r:
            bad.append((str(d), r))
    return bad


# ------------------------------------------------------------------- environments
_ENV: dict = {}


def to_date(d) -> datetime.date:
    if isinstance(d, datetime.date):
        return d
    return datetime.date.fromisoformat(str(d))


def environment(date, fresh=False):
    """(params, functions) for a date; params is a private deep copy."""
    d = to_date(date)
    if fresh:
        return set_up_policy_environment(d)
    if d not in _ENV:
        if len(_ENV) > 64:
            _ENV.clear()
        _ENV[d] = set_up_policy_environment(d)
    p, f = _ENV[d]
    return copy.deepcopy(p), dict(f)


# ------------------------------------------------------------------ dates of change
_CHG = None


def raw_yaml(group):
    return _YamlMemo.load((PARAM_DIR / f"{group}.yaml").read_text(encoding="utf-8"))


def _walk_dates(obj, out):
    if isinstance(obj, dict):
        for k, v in obj.items():
            if isinstance(k, datetime.date):
                out.add(k)
            _walk_dates(v, out)


def all_internal_functions():
    from _gettsim.functions_loader import load_internal_functions

    return load_internal_functions()


def change_dates():
    """All dates at which something may change: dated YAML keys (any depth), start dates
    and (end dates + 1) of rules."""
    global _CHG
    if _CHG is None:
        ds = set()
        for g in INTERNAL_PARAMS_GROUPS:
            _walk_dates(raw_yaml(g), ds)
        for f in all_internal_functions().values():
            info = getattr(f, "__info__", None)
            if info and "start_date" in info:
                if info["start_date"].year > 1:
                    ds.add(info["start_date"])
                if info["end_date"].year < 9999:
                    ds.add(info["end_date"] + datetime.timedelta(days=1))
        _CHG = sorted(ds)
    return list(_CHG)


def last_param_date():
    ds = set()
    for g in INTERNAL_PARAMS_GROUPS:
        _walk_dates(raw_yaml(g), ds)
    return max(ds)


def supported_change_dates(start=datetime.date(2015, 1, 1)):
    return [d for d in change_dates() if d >= start]


# ---------------------------------------------------------------------- node listing
def graph(functions, data_cols, targets=None, agg_group=None, agg_pid=None):
    """Nodes of the dependency graph for `targets` given the data columns.
    Returns (function_nodes_in_topological_order, root_nodes, dag, functions_not_overridden)."""
    import networkx as nx

    targets = list(DEFAULT_TARGETS) if targets is None else list(targets)
    fn, fo = load_and_check_functions(
        functions, targets, list(data_cols), agg_group or {}, agg_pid or {}
    )
    dag = set_up_dag(fn, targets, set(fo), "ignore")
    order = list(nx.topological_sort(dag))
    nodes = [n for n in order if n in fn]
    roots = [n for n in order if n not in fn]
    return nodes, roots, dag, fn


def classify(fn_dict):
    """kind of each function node: rule | agg_group | agg_pid | timeconv | grouping"""
    from _gettsim.groupings import create_groupings

    gr = set(create_groupings())
    out = {}
    for n, f in fn_dict.items():
        name = getattr(f, "__name__", "")
        if n in gr and name.endswith("_numpy"):
            out[n] = "grouping"
        elif name == "aggregate_by_group_func":
            out[n] = "agg_group"
        elif name == "aggregate_by_p_id_func":
            out[n] = "agg_pid"
        elif name == "func" and "converter" in getattr(
            getattr(f, "__wrapped__", f), "__code__", type("x", (), {"co_freevars": ()})
        ).co_freevars:
            out[n] = "timeconv"
        else:
            out[n] = "rule"
    return out


def simulate(data, params, functions, targets, **kw):
    with warnings.catch_warnings():
        warnings.simplefilter("ignore")
        return compute_taxes_and_transfers(data, params, functions, targets=targets, **kw)


def trace(data, params, functions, targets=None, **kw):
    """All-nodes run: returns (DataFrame incl. input columns, nodes, roots, dag, fn)."""
    nodes, roots, dag, fn = graph(functions, list(data.columns), targets)
    res = simulate(data, params, functions, nodes, **kw)
    res = res.copy()
    for c in data.columns:
        if c not in res.columns:
            res[c] = data[c].to_numpy()
    return res, nodes, roots, dag, fn


HIST_CANDIDATES = [*DEFAULT_TARGETS, "zu_verst_eink_y_sn", "vorsorgeaufw_y_sn", "arbeitsl_geld_2_eink_anr_frei_m", "wohngeld_m_hh",
                   "erziehungsgeld_m", "kinderzuschl_m_bg", "ges_pflegev_beitr_arbeitnehmer_m", "freibeträge_y_sn"]


def feasible_targets(functions, data_cols, candidates=None, data=None, params=None):
    """Those of the candidate targets (default: DEFAULT_TARGETS) that can be computed from the given data
    columns at this date (before 2015 the full default set is not computable)."""
    import inspect

    out = []
    cols = set(data_cols)
    for t in (candidates or DEFAULT_TARGETS):
        try:
            nodes, roots, dag, fn = graph(functions, list(data_cols), [t])
        except Exception:  # noqa: BLE001
            continue
        missing = [r for r in roots if r not in cols and not r.endswith("_params")]
        if missing:
            continue
        if data is not None:
            try:
                simulate(data, params, functions, [t])
            except Exception:  # noqa: BLE001
                continue
        out.append(t)
    return out

"""icontract post-conditions on the real primitives, installed from the harness by re-binding
every module attribute that holds the original.  Conditions *record* (COUNTS, FAILURES) and
return True, so a violated contract never aborts the execution it observes; a zero evaluation
count makes the owning check inconclusive."""
from __future__ import annotations

import math
import sys

import numpy as np

import icontract

from vf import shadow

COUNTS: dict = {}
FAILURES: list = []
_INSTALLED = False


class ContractBroken(Exception):
    pass


def _tick(name):
    COUNTS[name] = COUNTS.get(name, 0) + 1


def _fail(name, what, **kw):
    if len(FAILURES) < 200:
        FAILURES.append(dict(contract=name, what=what, **kw))


def _close(a, b, rel=1e-9):
    if isinstance(a, (bool, np.bool_)) or isinstance(b, (bool, np.bool_)):
        return bool(a) == bool(b)
    try:
        a, b = float(a), float(b)
    except (TypeError, ValueError):
        return a == b
    if math.isnan(a) and math.isnan(b):
        return True
    return a == b or abs(a - b) <= rel * max(1.0, abs(a), abs(b))


def _group_post(kind):
    name = f"grouped_{kind}"

    def cond(column, group_id, result):
        _tick(name)
        try:
            col = np.asarray(column)
            ids = np.asarray(group_id).tolist()
            if col.ndim == 0:  # a data-independent (scalar) source is broadcast to all rows
                col = np.broadcast_to(col, (len(ids),))
            if col.dtype.kind == "M":
                src = col.astype("datetime64[D]").astype(np.int64).tolist()
                res = np.asarray(result).astype("datetime64[D]").astype(np.int64).tolist()
            else:
                src = col.tolist()
                res = np.asarray(result).tolist()
            if len(res) != len(ids):
                _fail(name, f"result has {len(res)} rows for {len(ids)} input rows")
                return True
            want, members = shadow.group_reference(kind, src, ids)
            for i, (w, r) in enumerate(zip(want, res)):
                if not _close(w, r):
                    _fail(name, f"row {i} (group {ids[i]}, members at rows {members[ids[i]][:6]}): "
                                f"{name} returns {r!r}, definition gives {w!r}", group=ids[i])
                    return True
            if kind == "sum" and col.dtype.kind in "fib":
                tot = math.fsum(float(v) for v in src)
                per = {}
                for g, r in zip(ids, res):
                    per[g] = r
                if not _close(tot, math.fsum(float(v) for v in per.values()), 1e-8):
                    _fail(name, f"conservation broken: sum of group sums {math.fsum(float(v) for v in per.values())!r} != column total {tot!r}")
        except Exception as e:  # noqa: BLE001
            _fail(name, f"contract evaluation error: {type(e).__name__}: {e}")
        return True

    cond.__name__ = f"{name}_matches_definition"
    return cond


def _count_post(group_id, result):
    _tick("grouped_count")
    ids = np.asarray(group_id).tolist()
    want, members = shadow.group_reference("count", None, ids)
    res = np.asarray(result).tolist()
    for i, (w, r) in enumerate(zip(want, res)):
        if not _close(w, r):
            _fail("grouped_count", f"row {i}: count {r!r} != {w!r} members of group {ids[i]}")
            return True
    per = dict(zip(ids, res))
    if not _close(sum(per.values()), len(ids)):
        _fail("grouped_count", "group counts do not add up to the number of rows")
    return True


def _sum_by_p_id_post(column, p_id_to_aggregate_by, p_id_to_store_by, result):
    _tick("sum_by_p_id")
    try:
        src = np.asarray(column).tolist()
        ptr = np.asarray(p_id_to_aggregate_by).tolist()
        pid = np.asarray(p_id_to_store_by).tolist()
        want = shadow.pid_sum_reference(src, ptr, pid)
        res = np.asarray(result).tolist()
        for i, (w, r) in enumerate(zip(want, res)):
            if not _close(w, r):
                _fail("sum_by_p_id", f"person {pid[i]} is credited {r!r}, rows pointing to this person sum to {w!r}")
                return True
        tot = math.fsum(float(v) for v, t in zip(src, ptr) if t >= 0)
        if not _close(tot, math.fsum(float(v) for v in res), 1e-8):
            _fail("sum_by_p_id", "conservation broken: credited total differs from the total of rows with a non-negative pointer")
    except Exception as e:  # noqa: BLE001
        _fail("sum_by_p_id", f"contract evaluation error: {type(e).__name__}: {e}")
    return True


def _join_post(foreign_key, primary_key, target, value_if_foreign_key_is_missing, result):
    _tick("join_numpy")
    try:
        fk = np.asarray(foreign_key).tolist()
        pk = np.asarray(primary_key).tolist()
        tg = np.asarray(target).tolist()
        pos = {p: i for i, p in enumerate(pk)}
        res = np.asarray(result).tolist()
        for i, k in enumerate(fk):
            w = tg[pos[k]] if k in pos else value_if_foreign_key_is_missing
            if not _close(w, res[i]):
                _fail("join_numpy", f"row {i} with foreign key {k}: join returns {res[i]!r}, the referenced row holds {w!r}")
                return True
    except Exception as e:  # noqa: BLE001
        _fail("join_numpy", f"contract evaluation error: {type(e).__name__}: {e}")
    return True


def _rebind_everywhere(original, wrapped):
    n = 0
    for modname, mod in list(sys.modules.items()):
        if not modname.startswith("_gettsim") or mod is None:
            continue
        for k, v in list(vars(mod).items()):
            if v is original:
                setattr(mod, k, wrapped)
                n += 1
    return n


def install_aggregation_contracts():
    """Wrap the numpy aggregation primitives and join_numpy."""
    global _INSTALLED
    if _INSTALLED:
        return
    import _gettsim.functions  # noqa: F401  (imports every policy module)
    from _gettsim import aggregation_numpy as an
    from _gettsim import shared

    for kind in ("sum", "mean", "max", "min", "any", "all"):
        orig = getattr(an, f"grouped_{kind}")
        wrapped = icontract.ensure(_group_post(kind), error=ContractBroken)(orig)
        _rebind_everywhere(orig, wrapped)
    orig = an.grouped_count
    _rebind_everywhere(orig, icontract.ensure(_count_post, error=ContractBroken)(orig))
    orig = an.sum_by_p_id
    _rebind_everywhere(orig, icontract.ensure(_sum_by_p_id_post, error=ContractBroken)(orig))
    orig = shared.join_numpy
    _rebind_everywhere(orig, icontract.ensure(_join_post, error=ContractBroken)(orig))
    _INSTALLED = True


def drain():
    out = list(FAILURES)
    FAILURES.clear()
    return out

"""C03 - every column computed by a scalar rule equals the rule applied row by row; the dtype
follows the declared return type and never the data.

Monitor: reference-model (shadow) comparison, bit-exact, rounding off.
 (i)  whole-system traces: every scalar-rule node of an all-nodes run is recomputed by calling
      the unwrapped rule row by row on the parent values of the same trace;
 (ii) single-node harness through the public API for every rule of every validity period:
      the rule's arguments are supplied as data columns, the rule is the only target, and the
      row order is rotated so that rows returning each observed python type come first.
"""
from __future__ import annotations

import datetime
import inspect
import warnings

import numpy as np
import pandas as pd

PROPERTY = "C03"
LEVEL = "exploration"
N_ROWS = 96


def _rule_key(f):
    return f"{f.__module__.split('.')[-1]}.{f.__name__}"


def rule_catalogue(min_year=1984):
    """rule key -> (name_in_dag, [dates at which it is active])"""
    from vf import env, shadow

    dates = [d for d in env.change_dates() if d.year >= min_year]
    cat = {}
    for f in env.all_internal_functions().values():
        if not shadow.is_scalar_rule(f):
            continue
        info = getattr(f, "__info__", {}) or {}
        s = info.get("start_date", datetime.date(1, 1, 1))
        e = info.get("end_date", datetime.date(9999, 12, 31))
        act = [d for d in dates if s <= d <= e]
        if not act and e.year >= min_year:
            act = [max(s, datetime.date(min_year, 1, 1))]
        cat[_rule_key(f)] = (info.get("name_in_dag", f.__name__), act)
    return cat


def plan(tier, seed):
    from vf import env
    from vf.core import rng_for

    items = []
    ds = env.supported_change_dates()
    r = rng_for(seed, PROPERTY, 7)
    sys_dates = ds if tier == "thorough" else sorted(
        {datetime.date(2015, 1, 1), datetime.date(2020, 1, 1), datetime.date(2023, 7, 1),
         ds[int(r.integers(0, len(ds)))]})
    for d in sys_dates:
        for k in ((0, 1, 2, 3, 6) if tier == "quick" else range(8)):
            items.append(dict(kind="system", date=str(d), k=k, seed=seed))
    cat = rule_catalogue()
    for key, (name, act) in sorted(cat.items()):
        if not act:
            continue
        if tier == "quick":
            pick = sorted({act[-1], act[len(act) // 2], act[int(r.integers(0, len(act)))]})
        else:
            step = max(1, len(act) // 10)
            pick = sorted(set(act[::step]) | {act[0], act[-1]})
        for d in pick:
            items.append(dict(kind="single", rule=key, name=name, date=str(d), seed=seed))
    return items


# ------------------------------------------------------------------ value generation
def gen_values(rng, name, typ, n, pool):
    if typ is np.datetime64:
        return (np.datetime64("1930-01-01") + rng.integers(0, 36000, n).astype("timedelta64[D]")).astype("datetime64[D]")
    if typ is bool:
        return rng.random(n) < 0.5
    if typ is int:
        nm = name
        if nm.startswith("p_id_"):
            return rng.integers(-1, n, n)
        if nm == "p_id":
            return np.arange(n)
        if nm.endswith("_id"):
            return np.sort(rng.integers(0, max(2, n // 3), n))
        if "alter_monate" in nm:
            return rng.integers(0, 1300, n)
        if "alter" in nm:
            return rng.integers(0, 101, n)
        if "jahr" in nm:
            return rng.choice(np.r_[1900:2031], n)
        if "monat" in nm and "monate" not in nm:
            return rng.integers(1, 13, n)
        if nm == "geburtstag":
            return rng.integers(1, 29, n)
        if nm == "mietstufe":
            return rng.integers(1, 8, n)
        if nm == "steuerklasse":
            return rng.integers(1, 7, n)
        if nm == "behinderungsgrad":
            return rng.choice([0, 20, 25, 30, 40, 50, 60, 70, 80, 90, 100], n)
        return rng.choice([0, 0, 1, 1, 2, 3, 4, 5, 6, 11, 12, 13, 24, 36, 59, 60, 100, 420, 1000], n)
    # float
    base = pool[rng.integers(0, len(pool), n)]
    eps = rng.choice([0.0, 0.0, 0.01, -0.01, 1.0, -1.0], n)
    v = base + eps
    u = rng.random(n)
    v = np.where(u < 0.25, np.round(rng.uniform(0, 8000, n), 2), v)
    v = np.where((u >= 0.25) & (u < 0.35), 0.0, v)
    v = np.where((u >= 0.35) & (u < 0.40), np.round(rng.uniform(0, 200000, n), 2), v)
    v = np.where((u >= 0.40) & (u < 0.43), -np.round(rng.uniform(0, 3000, n), 2), v)
    v = np.where((u >= 0.43) & (u < 0.50), np.round(rng.uniform(0, 3, n), 4), v)
    return v.astype(float)


def arg_type(arg, rule, functions):
    from _gettsim.config import TYPES_INPUT_VARIABLES

    if arg in TYPES_INPUT_VARIABLES:
        return TYPES_INPUT_VARIABLES[arg]
    if arg in functions:
        t = getattr(functions[arg], "__annotations__", {}).get("return")
        if t in (bool, int, float, np.datetime64):
            return t
    t = rule.__annotations__.get(arg)
    return t if t in (bool, int, float, np.datetime64) else float


# ----------------------------------------------------------------------- items
def run_item(item):
    if item["kind"] == "system":
        return _run_system(item)
    return _run_single(item)


def _compare_rule(name, f, params, cols, prod, res, ctx):
    from vf import shadow

    n = len(prod)
    ref, errs = shadow.scalar_column(f, params, cols, n)
    res["rows"] += n
    res["rules"] += 1
    if any(e is not None for e in errs):
        res["violations"].append(dict(key=f"{name}:scalar_raises",
                                      what=f"rule {name} raises on a row although production returned a column: {[e for e in errs if e][0]}", **ctx))
        return ref
    i = shadow.values_equal(prod, ref)
    if i >= 0:
        types = sorted({type(r).__name__ for r in ref})
        res["violations"].append(dict(
            key=f"{name}:value",
            what=f"column {name} row {i} holds {prod[i]!r} but the rule returns {ref[i]!r} for that row "
                 f"(column dtype {prod.dtype}, python result types {types}, first row returned {type(ref[0]).__name__})",
            row=i, **ctx))
    want, decl = shadow.declared_dtype(f)
    if want is not None and prod.dtype != want:
        res["violations"].append(dict(
            key=f"{name}:dtype",
            what=f"column {name} has dtype {prod.dtype}, declared return type is {decl.__name__}", **ctx))
    return ref


def _run_system(item):
    from vf import env, popgen, shadow
    from vf.core import rng_for

    d = datetime.date.fromisoformat(item["date"])
    rng = rng_for(item["seed"], PROPERTY, d.toordinal(), item["k"])
    params, functions = env.environment(d)
    df = popgen.population(rng, d, n_hh=int(rng.integers(5, 12)), params=params)
    # shuffle rows: the canonical adults-first order is exactly what the tests already do
    df = df.iloc[rng.permutation(len(df))].reset_index(drop=True)
    res = dict(kind="system", date=item["date"], rows=0, rules=0, violations=[], rule_names=[],
               pop=popgen.digest(df), int_first_row=0)
    try:
        if item["k"] % 2 == 1:
            # debug mode on a table with its own index labels: the returned frame holds inputs and computed columns;
            # every computed value must be the rule applied to the inputs IN ITS OWN ROW of that frame
            dfl = df.copy()
            dfl.index = rng.permutation(len(df)) if item["k"] % 4 == 1 else np.arange(len(df)) + 10
            nodes, roots, dag, fn = env.graph(functions, list(df.columns))
            tr = env.simulate(dfl, params, functions, nodes, rounding=False, debug=True)
            if len(tr) != len(df):
                res["violations"].append(dict(key="debug:rows", what=f"debug=True returns {len(tr)} rows for {len(df)} input rows", date=item["date"]))
                return res
            tr = tr.reset_index(drop=True)
            res["debug_frames"] = 1
        elif item["k"] % 4 == 2:
            # data as a dict of Series whose index labels are permuted differently per column: rows are positions,
            # so every computed value must be the rule applied to the inputs at the same POSITION
            import pandas as pd

            nodes, roots, dag, fn = env.graph(functions, list(df.columns))
            # k % 8 == 2: every column with its own permutation; k % 8 == 6: identifiers, pointers, flags and group-level
            # columns share one labelling, only the individual money columns carry other permutations of the same labels
            free = [c for c in df.columns if df[c].dtype.kind == "f" and c.split("_")[-1] not in ("hh", "fg", "bg", "eg", "ehe", "sn", "wthh")]
            common = rng.permutation(len(df))
            data = {c: pd.Series(df[c].to_numpy(), index=rng.permutation(len(df)) if (item["k"] % 8 == 2 or c in free) else common)
                    for c in df.columns}
            try:
                out = env.simulate(data, params, functions, nodes, rounding=False)
            except ValueError as e:
                if "identically-labeled" not in str(e):
                    raise
                # the unchanged tree refuses columns whose labels disagree (loudly, in the pointer check): acceptable;
                # what must never happen is a silent re-alignment by label
                res["dict_frames_rejected"] = 1
                res["sample"] = popgen.describe(df)
                return res
            if len(out) != len(df):
                res["violations"].append(dict(key="dict:rows", what=f"dict-of-Series input returns {len(out)} rows for {len(df)} input rows", date=item["date"]))
                return res
            tr = out.reset_index(drop=True).copy()
            for c in df.columns:
                if c not in tr.columns:
                    tr[c] = df[c].to_numpy()
            res["dict_frames"] = 1
        else:
            if item["k"] % 4 == 0:
                # the data also carry (survey-reported) columns named like ANOTHER time unit of some rules: the rule column
                # itself must still hold the rule's value in every row
                import re as _re

                nodes0 = env.graph(functions, list(df.columns))[0]
                cands = [t for t in nodes0 if t in functions and shadow.is_scalar_rule(functions[t]) and _re.search(r"_(m|y)(_(hh|fg|bg|eg|ehe|sn|wthh))?$", t)]
                extra = {}
                for t in [cands[i] for i in rng.choice(len(cands), min(6, len(cands)), replace=False)] if cands else []:
                    other = _re.sub(r"_(m|y)((_(hh|fg|bg|eg|ehe|sn|wthh))?)$", lambda m_: ("_y" if m_.group(1) == "m" else "_m") + m_.group(2), t)
                    if other not in nodes0 and other not in df.columns and other not in functions:
                        extra[other] = np.full(len(df), 777.0)
                df = df.assign(**extra)
                res["other_unit_columns_next_to_rules"] = len(extra)
            tr, nodes, roots, dag, fn = env.trace(df, params, functions, rounding=False)
    except Exception as e:  # noqa: BLE001 - completeness is C08's business; here the run just yields nothing to compare
        res["system_run_raised"] = f"{type(e).__name__}: {str(e)[:120]}"
        res["sample"] = popgen.describe(df)
        return res
    kinds = env.classify(fn)
    for nme in nodes:
        # whatever the graph factory made of the name: a node the environment defines by a scalar rule holds that rule's values
        if nme not in functions or not shadow.is_scalar_rule(functions[nme]):
            continue
        f = functions[nme]
        missing = [a for a in shadow.rule_args(f) if not (a.endswith("_params") and a[:-7] in params) and a not in tr.columns]
        if missing:
            res["violations"].append(dict(key=f"{nme}:not_computed_by_its_rule", date=item["date"],
                                          what=f"{nme} is defined by the scalar rule {f.__name__} but the run does not contain the rule's argument(s) "
                                               f"{missing[:3]}: the column was computed by something else (graph kind {kinds.get(nme)})"))
            continue
        cols = {a: shadow.pylist(tr[a].to_numpy(), in_dag=a in nodes) for a in shadow.rule_args(f) if not (a.endswith("_params") and a[:-7] in params)}
        ref = _compare_rule(nme, f, params, cols, tr[nme].to_numpy(), res, dict(date=item["date"]))
        res["rule_names"].append(nme)
        if ref and type(ref[0]) is int and f.__annotations__.get("return") is float:
            res["int_first_row"] += 1
    res["sample"] = popgen.describe(df)
    return res


def _run_single(item):
    from vf import env, popgen, shadow
    from vf.core import rng_for
    from vf.core import crc

    d = datetime.date.fromisoformat(item["date"])
    rng = rng_for(item["seed"], PROPERTY, d.toordinal(), crc(item["rule"]))
    params, functions = env.environment(d)
    name = item["name"]
    res = dict(kind="single", rule=item["rule"], date=item["date"], rows=0, rules=0, violations=[],
               status="", first_row_types=[], infeasible_rows=0, runs=0)
    f = functions.get(name)
    if f is None or _rule_key(f) != item["rule"]:
        res["status"] = "not_active"
        return res
    args = [a for a in shadow.rule_args(f) if not (a.endswith("_params") and a[:-7] in params)]
    if any(a.endswith("_params") for a in args):
        res["status"] = "params_group_missing"
        return res
    pool = np.array(popgen.money_thresholds(params) or [100.0])
    n = N_ROWS
    cols = {a: gen_values(rng, a, arg_type(a, f, functions), n, pool) for a in args}
    cols["p_id"] = np.arange(n)
    for a in cols:
        if a.startswith("p_id_"):  # valid pointers: -1 or another person
            v = cols[a]
            cols[a] = np.where(v == cols["p_id"], -1, v)
    lists = {a: shadow.pylist(v, in_dag=False) for a, v in cols.items()}
    ref, errs = shadow.scalar_column(f, params, lists, n)
    keep = [i for i, e in enumerate(errs) if e is None]
    res["infeasible_rows"] = n - len(keep)
    if len(keep) < 8:
        res["status"] = "infeasible:" + str(next(e for e in errs if e))[:80]
        return res
    cols = {a: v[keep] for a, v in cols.items()}
    kept = set(cols["p_id"].tolist())
    for a in cols:
        if a.startswith("p_id_"):
            cols[a] = np.array([x if x in kept else -1 for x in cols[a].tolist()])
    ref = [ref[i] for i in keep]
    n = len(keep)
    # rows to put first: one per python result type, preferring int results of float rules
    firsts, seen = [], set()
    for i, r in enumerate(ref):
        t = type(r).__name__
        if t not in seen:
            seen.add(t)
            firsts.append(i)
    firsts = firsts[:4]
    res["first_row_types"] = sorted(seen)
    for fi in firsts:
        order = np.r_[fi, [j for j in range(n) if j != fi]]
        data = pd.DataFrame({a: v[order] for a, v in cols.items()})
        try:
            with warnings.catch_warnings():
                warnings.simplefilter("ignore")
                out = env.compute_taxes_and_transfers(data, params, functions, targets=[name], rounding=False)
        except ValueError as e:
            if "data types" in str(e) or "Conversion" in str(e) or "unique value per group" in str(e):
                res["status"] = "harness_conversion:" + str(e)[:80].replace("\n", " ")
                return res
            res["violations"].append(dict(key=f"{name}:production_raises", rule=item["rule"],
                                          what=f"production raises {type(e).__name__} although the scalar rule accepts every row: {str(e)[:200]}"))
            return res
        except Exception as e:  # noqa: BLE001
            res["violations"].append(dict(key=f"{name}:production_raises", rule=item["rule"],
                                          what=f"production raises {type(e).__name__} although the scalar rule accepts every row: {str(e)[:200]}"))
            return res
        res["runs"] += 1
        lists = {a: shadow.pylist(data[a].to_numpy(), in_dag=False) for a in args}
        _compare_rule(name, f, params, lists, out[name].to_numpy(), res,
                      dict(rule=item["rule"], date=item["date"], first_row_type=type(ref[fi]).__name__))
    res["status"] = "ok"
    res["sample"] = dict(rule=item["rule"], date=item["date"], args=args,
                         row0={a: cols[a][0].item() for a in args}, result_row0=repr(ref[0]))
    return res


def summarize(results, tier, seed):
    ok = [r for r in results if "_harness_error" not in r]
    viol = []
    for r in ok:
        for v in r["violations"]:
            viol.append(dict(key=v["key"], what=v["what"], witness=v, item=r["_item"]))
    single = [r for r in ok if r["kind"] == "single"]
    system = [r for r in ok if r["kind"] == "system"]
    exercised = {r["rule"] for r in single if r["status"] == "ok"}
    all_rules = {r["rule"] for r in single}
    never = sorted(all_rules - exercised)
    why = {}
    for r in single:
        if r["rule"] in never:
            why[r["rule"]] = r["status"]
    sys_rules = set()
    for r in system:
        sys_rules |= set(r["rule_names"])
    inconclusive = []
    raised = [r["system_run_raised"] for r in system if r.get("system_run_raised")]
    if len(raised) > 0.2 * max(1, len(system)):
        inconclusive.append(f"{len(raised)} of {len(system)} system runs raised: {raised[0]}")
    if all_rules and len(exercised) < 0.85 * len(all_rules):
        inconclusive.append(f"only {len(exercised)} of {len(all_rules)} rules exercised by the single-node harness")
    distinct = len({(r["rule"], r["date"]) for r in single if r["status"] == "ok"}) + len({r["pop"] for r in system})
    cov = dict(
        evaluations=sum(r.get("runs", 0) for r in single) + len(system),
        distinct_nontrivial=distinct,
        rule="evaluation = one production run (single rule as only target with generated argument columns, "
             "or one all-nodes system run); distinct non-trivial = distinct (rule, date) with >= 8 feasible rows "
             "compared bit-exactly against the scalar rule, plus distinct system populations",
        rules_total=len(all_rules), rules_exercised_single=len(exercised),
        rules_exercised_system=len(sys_rules),
        other_unit_data_columns_next_to_rules=sum(r.get("other_unit_columns_next_to_rules", 0) for r in system),
        system_runs_through_debug_frame=sum(r.get("debug_frames", 0) for r in system),
        system_runs_with_dict_of_series_and_permuted_labels=dict(computed=sum(r.get("dict_frames", 0) for r in system),
                                                                 rejected_loudly=sum(r.get("dict_frames_rejected", 0) for r in system)),
        rules_never_exercised={k: why[k] for k in never[:60]},
        rows_compared=sum(r["rows"] for r in ok),
        rule_columns_compared=sum(r["rules"] for r in ok),
        first_row_result_types=sorted({t for r in single for t in r.get("first_row_types", [])}),
        float_rules_with_int_first_row_in_system_runs=sum(r.get("int_first_row", 0) for r in system),
        samples=[r["sample"] for r in single if r.get("sample")][:3] + [dict(system=r["sample"], date=r["date"]) for r in system[:1]],
    )
    return dict(coverage=cov, violations=viol, inconclusive=inconclusive,
                assumptions=["array rules (skip_vectorization) are outside C03's scope (not scalar rules)",
                             "single-node harness feeds generated argument values; rows on which the scalar rule itself raises are dropped (counted)"])

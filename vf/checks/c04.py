"""C04 - a column's value does not depend on the other targets, unused columns, debug or the
minimal-specification option; result shape and column set are exactly as requested.

Monitor: differential runs against the all-nodes trace S0 of the same data (same row order,
hence bit equality is demanded for every column)."""
from __future__ import annotations

import datetime
import warnings

import numpy as np
import pandas as pd

PROPERTY = "C04"
LEVEL = "exploration"
LEVELS = ["hh", "wthh", "fg", "bg", "eg", "ehe", "sn"]


def plan(tier, seed):
    from vf import env
    from vf.core import rng_for

    ds = env.supported_change_dates()
    r = rng_for(seed, PROPERTY, 3)
    if tier == "quick":
        dates = sorted({datetime.date(2019, 7, 1), datetime.date(2024, 1, 1), ds[int(r.integers(0, len(ds)))]})
        chunks, pops = 8, 2
    else:
        dates, chunks, pops = ds, 8, 2
    items = [dict(date=str(d), k=k, chunk=c, chunks=chunks, seed=seed, tier=tier)
             for d in dates for k in range(pops) for c in range(chunks)]
    hist = [datetime.date(2002, 7, 1), datetime.date(2009, 7, 1)] if tier == "quick" else [datetime.date(y, 7, 1) for y in range(1996, 2015)]
    items += [dict(date=str(d), k=0, chunk=c, chunks=4, seed=seed, tier=tier, historical=True) for d in hist for c in range(4)]
    return items


def _eq(a, b):
    a = np.asarray(a)
    b = np.asarray(b)
    if a.dtype != b.dtype:
        return False
    if a.dtype.kind == "f":
        return bool(np.all((a == b) | (np.isnan(a) & np.isnan(b))))
    return bool(np.all(a == b))


def run_item(item):
    from vf import env, popgen
    from vf.core import rng_for

    d = datetime.date.fromisoformat(item["date"])
    prng = rng_for(item["seed"], PROPERTY, d.toordinal(), item["k"])
    rng = rng_for(item["seed"], PROPERTY, d.toordinal(), item["k"], item["chunk"])
    params, functions = env.environment(d)
    df = popgen.population(prng, d, n_hh=6, params=params)
    df = df.iloc[prng.permutation(len(df))].reset_index(drop=True)
    TARGETS = None
    if item.get("historical"):
        df = popgen.historical_supplement(df, d)
        TARGETS = env.feasible_targets(functions, list(df.columns), data=df, params=params, candidates=env.HIST_CANDIDATES)
    S0, nodes, roots, dag, fn = env.trace(df, params, functions, TARGETS)
    n = len(df)
    res = dict(date=item["date"], pop=popgen.digest(df), runs=0, violations=[], target_sets=[],
               columns_compared=0, kinds={})

    def viol(key, what, **kw):
        res["violations"].append(dict(key=key, what=what, **kw))

    def run(targets, label, data=None, expect_cols=True, **kw):
        data = df if data is None else data
        res["kinds"][label] = res["kinds"].get(label, 0) + 1
        try:
            with warnings.catch_warnings(record=True) as w:
                warnings.simplefilter("always")
                as_str = kw.pop("targets_as_str", False)  # a single target may be passed as a plain string
                out = env.compute_taxes_and_transfers(data, params, functions, targets=(list(targets)[0] if as_str else list(targets)), **kw)
        except Exception as e:  # noqa: BLE001
            viol(f"exception:{label}:{type(e).__name__}",
                 f"targets={sorted(targets)[:6]} ({label}, {kw}) raises {type(e).__name__}: {str(e)[:160]} "
                 f"although every target is computed in the all-nodes run", targets=sorted(targets))
            return None, []
        res["runs"] += 1
        res["target_sets"].append((label, tuple(sorted(targets))[:8], len(targets)))
        if len(out) != n or not isinstance(out.index, pd.RangeIndex):
            viol(f"shape:{label}", f"result has {len(out)} rows / index {type(out.index).__name__} for {n} input rows")
            return None, w
        if expect_cols and not kw.get("debug") and set(out.columns) != set(targets):
            viol(f"columns:{label}", f"result columns {sorted(set(out.columns) ^ set(targets))[:6]} differ from the requested targets")
        for t in targets:
            if t in out.columns and t in S0.columns:
                res["columns_compared"] += 1
                if not _eq(out[t].to_numpy(), S0[t].to_numpy()):
                    i = int(np.argmax(out[t].to_numpy() != S0[t].to_numpy()))
                    viol(f"{t}:value:{label}",
                         f"column {t} differs between targets={sorted(targets)[:5]}({label}) and the all-nodes run: "
                         f"row {i}: {out[t].iloc[i]!r} (dtype {out[t].dtype}) vs {S0[t].iloc[i]!r} (dtype {S0[t].dtype})",
                         targets=sorted(targets))
            elif t not in out.columns:
                viol(f"columns:{label}", f"requested target {t} missing from the result")
        return out, w

    my_nodes = [t for i, t in enumerate(nodes) if i % item["chunks"] == item["chunk"]]
    if item["tier"] == "quick":
        my_nodes = [my_nodes[i] for i in rng.choice(len(my_nodes), min(14, len(my_nodes)), replace=False)]
    for j, t in enumerate(my_nodes):
        run([t], "singleton")
        if j % 5 == 0:
            run([t], "singleton_as_string", targets_as_str=True)
    for _ in range(4 if item["tier"] == "quick" else 10):
        size = min(int(rng.integers(2, 41)), len(nodes))
        run([nodes[i] for i in rng.choice(len(nodes), size, replace=False)], "subset")
    # pairs: a node together with one other node (side effects of one target's preparation on another)
    for _ in range(6 if item["tier"] == "quick" else 20):
        if len(nodes) < 2:
            break
        a, b = (nodes[i] for i in rng.choice(len(nodes), 2, replace=False))
        run([a, b], "pair")
    # nodes that depend on parameters only
    import inspect
    ponly = [t for t in nodes if all(a.endswith("_params") for a in inspect.signature(fn[t]).parameters)]
    if ponly:
        pick = [ponly[i] for i in rng.choice(len(ponly), min(len(ponly), int(rng.integers(1, 4))), replace=False)]
        run(pick, "params_only")
        if item["chunk"] == 0:
            run(ponly, "params_only")
    # automatic sums that exist only because they are requested
    indiv = [t for t in nodes + roots if not any(t.endswith("_" + l) for l in LEVELS)
             and not t.endswith("_id") and not t.startswith("p_id") and t in S0.columns
             and S0[t].dtype.kind in "fib"]
    for _ in range(3 if item["tier"] == "quick" else 8):
        x = indiv[int(rng.integers(0, len(indiv)))]
        lvl = LEVELS[int(rng.integers(0, len(LEVELS)))]
        t = f"{x}_{lvl}"
        if t in fn or t in df.columns:
            continue
        if f"{lvl}_id" not in S0.columns:
            continue  # (historical dates) the grouping itself is not computable there
        o1, _ = run([t], "auto_sum_alone", expect_cols=True)
        others = [nodes[i] for i in rng.choice(len(nodes), min(5, len(nodes)), replace=False)]
        o2, _ = run([t, *others], "auto_sum_in_set")
        if o1 is not None and o2 is not None and t in o1 and t in o2:
            res["columns_compared"] += 1
            if not _eq(o1[t].to_numpy(), o2[t].to_numpy()):
                viol(f"{t}:auto_sum", f"requested automatic sum {t} differs between target sets")
    # options: debug, extra columns, minimal specification
    tsub = [nodes[i] for i in rng.choice(len(nodes), min(6, len(nodes)), replace=False)]
    out, _ = run(tsub, "debug", debug=True)
    if out is not None:
        missing = [c for c in tsub if c not in out.columns]
        if missing:
            viol("debug:columns", f"debug=True result lacks targets {missing}")
    # index labels of the caller's table (permuted, filtered, strings, duplicates) must not matter:
    # one row per input row, in input order, values unchanged - with and without debug
    for lab_name, labels in (("permuted", rng.permutation(n)), ("offset", np.arange(n) + 4), ("strings", np.array([f"r{i}" for i in range(n)], dtype=object)),
                             ("duplicates", np.zeros(n, dtype=int))):
        dfi = df.copy()
        dfi.index = labels
        for dbg in (False, True):
            try:
                with warnings.catch_warnings():
                    warnings.simplefilter("ignore")
                    o = env.compute_taxes_and_transfers(dfi, params, functions, targets=list(tsub), debug=dbg)
            except Exception as e:  # noqa: BLE001
                viol(f"index_labels:exception:debug={dbg}", f"index labels '{lab_name}' with debug={dbg} raise {type(e).__name__}: {str(e)[:160]}")
                continue
            res["runs"] += 1
            res["kinds"]["index_labels"] = res["kinds"].get("index_labels", 0) + 1
            if len(o) != n:
                viol(f"index_labels:rows:debug={dbg}", f"index labels '{lab_name}', debug={dbg}: {len(o)} rows for {n} input rows")
                continue
            for t in tsub:
                res["columns_compared"] += 1
                if not _eq(o[t].to_numpy(), S0[t].to_numpy()):
                    viol(f"index_labels:value:debug={dbg}", f"index labels '{lab_name}', debug={dbg}: column {t} is not in input row order / differs from the all-nodes run")
                    break
            if dbg and "p_id" in o.columns and not np.array_equal(o["p_id"].to_numpy(), df["p_id"].to_numpy()):
                viol("index_labels:debug_inputs", f"index labels '{lab_name}': debug output rows are not the input rows in input order")
    # other time units of a computed column requested together with it (derived nodes must not disturb their source)
    import re as _re2

    ure = _re2.compile(r"(?P<base>.*_)(?P<u>[ymwd])(?P<agg>_hh|_wthh|_fg|_bg|_eg|_ehe|_sn)?$")
    cand = [t for t in nodes if ure.match(t) and not t.endswith("_id")]
    for _ in range(4 if item["tier"] == "quick" else 12):
        if not cand:
            break
        t = cand[int(rng.integers(0, len(cand)))]
        m2 = ure.match(t)
        variants = [f"{m2.group('base')}{u}{m2.group('agg') or ''}" for u in "ymwd" if u != m2.group("u")]
        variants = [v for v in variants if v not in df.columns]
        for combo in ([t, *variants], [*variants[::-1], t], [t, variants[-1]]):
            try:
                with warnings.catch_warnings():
                    warnings.simplefilter("ignore")
                    o = env.compute_taxes_and_transfers(df, params, functions, targets=list(combo))
            except ValueError as e:
                if "no corresponding function" in str(e):
                    break
                viol(f"exception:unit_variants:{type(e).__name__}", f"targets={combo} raise {type(e).__name__}: {str(e)[:150]}")
                break
            except Exception as e:  # noqa: BLE001
                viol(f"exception:unit_variants:{type(e).__name__}", f"targets={combo} raise {type(e).__name__}: {str(e)[:150]}")
                break
            res["runs"] += 1
            res["kinds"]["unit_variants"] = res["kinds"].get("unit_variants", 0) + 1
            res["columns_compared"] += 1
            if not _eq(o[t].to_numpy(), S0[t].to_numpy()):
                viol(f"unit_variants:{m2.group('u')}", f"column {t} changes when its other time units {variants} are requested together with it "
                                                     f"(row 0: {o[t].iloc[0]!r} vs {S0[t].iloc[0]!r})")
                break
    # unused columns whose names look like another time unit of a computed column
    import re as _re

    unit_re = _re.compile(r"(?P<base>.*_)(?P<u>[ymwd])(?P<agg>_hh|_wthh|_fg|_bg|_eg|_ehe|_sn)?$")
    rules = [t for t in nodes if t in functions and unit_re.match(t)]
    for _ in range(3 if item["tier"] == "quick" else 10):
        t = rules[int(rng.integers(0, len(rules)))]
        m_ = unit_re.match(t)
        v = [u for u in "ymwd" if u != m_.group("u")][int(rng.integers(0, 3))]
        other = f"{m_.group('base')}{v}{m_.group('agg') or ''}"
        if other in df.columns or other in functions:
            continue
        g_nodes = set(env.graph(functions, list(df.columns), [t])[2].nodes)
        if other in g_nodes:
            continue  # the target really depends on that variant
        dfx = df.copy()
        dfx[other] = 12345.0 if not (m_.group("agg")) else 777.0
        run([t], "unused_other_unit_column", data=dfx)
    extra = df.copy()
    extra["völlig_unbenutzt"] = np.arange(n, dtype=float)
    extra["bruttolohn_m_xx"] = 1.0
    extra["unused_hh"] = extra["hh_id"].astype(float)
    run(tsub, "extra_columns", data=extra)
    _, w = run(tsub, "extra_columns_warn", data=extra, check_minimal_specification="warn")
    if not any("unused" in str(x.message) for x in w):
        viol("minimal_spec:warn", "check_minimal_specification='warn' with unused columns emits no warning")
    try:
        env.compute_taxes_and_transfers(extra, params, functions, targets=tsub, check_minimal_specification="raise")
        viol("minimal_spec:raise", "check_minimal_specification='raise' with unused columns does not raise")
    except ValueError as e:
        if "unused" not in str(e):
            viol("minimal_spec:raise_other", f"'raise' fails with another error: {str(e)[:120]}")
    res["runs"] += 1
    # minimal data: exactly the root columns of the target set -> must neither warn nor raise
    _, _, dag2, fn2 = env.graph(functions, list(df.columns), tsub)[0:4]
    roots2 = [c for c in dag2.nodes if c not in fn2 and c in df.columns]
    mini = df[roots2] if "p_id" in roots2 else df[[*roots2, "p_id"]]
    if "p_id" in roots2:
        run(tsub, "minimal_raise", data=mini, check_minimal_specification="raise")
    # a data column that overrides a rule (with values of the user's own) next to a target that depends on it: whether the
    # overriding column itself is ALSO requested must not matter (the unchanged tree refuses such a target: loud is fine)
    cand = [t for t in my_nodes if t in functions and S0[t].dtype.kind == "f" and any(c in nodes for c in dag.successors(t))]
    for t in cand[:3]:
        child = next(c for c in dag.successors(t) if c in nodes)
        data2 = df.copy()
        data2[t] = S0[t].to_numpy() + 100.0
        try:
            with warnings.catch_warnings():
                warnings.simplefilter("ignore")
                a = env.compute_taxes_and_transfers(data2, params, functions, targets=[child])
        except Exception:  # noqa: BLE001
            continue
        res["kinds"]["overriding_column_also_target"] = res["kinds"].get("overriding_column_also_target", 0) + 1
        try:
            with warnings.catch_warnings():
                warnings.simplefilter("ignore")
                b = env.compute_taxes_and_transfers(data2, params, functions, targets=[child, t])
        except Exception:  # noqa: BLE001
            res["kinds"]["overriding_column_also_target:rejected"] = res["kinds"].get("overriding_column_also_target:rejected", 0) + 1
            continue
        res["runs"] += 2
        if not _eq(a[child].to_numpy(), b[child].to_numpy()):
            viol(f"{child}:value:overriding_column_also_target",
                 f"data column {t} (user values) overrides the rule; {child} differs between targets=[{child}] and targets=[{child}, {t}]")
        elif t in b.columns and not _eq(b[t].to_numpy(), data2[t].to_numpy()):
            viol(f"{t}:value:overriding_column_also_target", f"data column {t} overrides the rule but requesting it returns other values than the data")
    res["sample"] = dict(date=item["date"], population=popgen.describe(df),
                         target_sets=[list(t[1])[:5] for t in res["target_sets"][:6]])
    res["target_sets"] = [(a, hash(b), c) for a, b, c in res["target_sets"]]
    return res


def summarize(results, tier, seed):
    ok = [r for r in results if "_harness_error" not in r]
    viol = [dict(key=v["key"], what=v["what"], witness=v, item=r["_item"]) for r in ok for v in r["violations"]]
    sets = {(r["pop"], r["date"], *ts) for r in ok for ts in r["target_sets"]}
    kinds = {}
    for r in ok:
        for k, v in r["kinds"].items():
            kinds[k] = kinds.get(k, 0) + v
    inconclusive = []
    for need in ("singleton", "subset", "pair", "params_only", "auto_sum_alone", "debug", "extra_columns"):
        if kinds.get(need, 0) == 0:
            inconclusive.append(f"no run of kind {need}")
    cov = dict(
        evaluations=sum(r["runs"] for r in ok),
        distinct_nontrivial=len(sets),
        rule="evaluation = one compute_taxes_and_transfers call with a target set / option setting, compared bitwise "
             "with the all-nodes run on the same data; distinct = (population, date, kind, target set); every such run "
             "is non-trivial (target set differs from the all-nodes set)",
        runs_by_kind=kinds,
        columns_compared=sum(r["columns_compared"] for r in ok),
        dates=sorted({r["date"] for r in ok}),
        historical_dates=sorted({r["date"] for r in ok if r["_item"].get("historical")}),
        samples=[r["sample"] for r in ok[:2]],
    )
    return dict(coverage=cov, violations=viol, inconclusive=inconclusive,
                assumptions=["debug=True is documented to return inputs and all computed nodes, so 'exactly the targets' is only demanded without debug"])

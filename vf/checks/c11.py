"""C11 - group and person-pointer aggregates equal their mathematical definition.

Monitors:
 (a) icontract post-conditions on the real primitives (grouped_* , sum_by_p_id, join_numpy): result
     equals a python-loop reference per group / per pointer, is constant within the group, conserves
     totals; driven by a hostile direct workload (sparse unsorted ids, single-member and giant groups,
     float / int / bool / datetime columns, negative pointers) and active during system runs;
 (b) through the API: every aggregation node of an all-nodes trace vs the definition taken from the
     specs (user > built-in > automatic sum); individual-level columns requested with each of the
     seven group suffixes; user specs overriding built-in specs and automatic sums."""
from __future__ import annotations

import datetime
import math
import warnings

import numpy as np

PROPERTY = "C11"
LEVEL = "exploration"
LEVELS = ["hh", "wthh", "fg", "bg", "eg", "ehe", "sn"]


def plan(tier, seed):
    from vf import env
    from vf.core import rng_for

    r = rng_for(seed, PROPERTY, 0)
    ds = env.supported_change_dates()
    items = [dict(kind="direct", k=k, seed=seed, cases=60) for k in range(16 if tier == "quick" else 64)]
    sysd = ds if tier == "thorough" else sorted({datetime.date(2016, 7, 1), datetime.date(2023, 1, 1),
                                                 ds[int(r.integers(0, len(ds)))]})
    for d in sysd:
        for k in range(4):
            items.append(dict(kind="system", date=str(d), k=k, seed=seed))
    return items


def worker_init():
    from vf import contracts

    contracts.install_aggregation_contracts()


def run_item(item):
    return _direct(item) if item["kind"] == "direct" else _system(item)


def _ids(rng, n):
    style = int(rng.integers(0, 6))
    if style == 0:
        ids = rng.integers(0, max(1, n // 3), n)
    elif style == 1:
        ids = rng.choice(rng.choice(100000, max(1, n // 2), replace=False), n)  # sparse, unsorted
    elif style == 2:
        ids = np.zeros(n, dtype=np.int64) + int(rng.integers(0, 1000))  # one giant group
    elif style == 3:
        ids = rng.permutation(n) * 7 + 3  # all single-member groups
    elif style == 4:
        ids = np.sort(rng.integers(0, 50, n))[::-1].copy()
    else:
        ids = np.where(rng.random(n) < 0.5, 99999, rng.integers(0, 5, n))
    return ids.astype(np.int64)


def _column(rng, n, kind):
    if kind == "float":
        v = np.round(rng.uniform(-1000, 5000, n), 2)
        return np.where(rng.random(n) < 0.2, 0.0, v)
    if kind == "int":
        return rng.integers(-5, 100, n)
    if kind == "bool":
        return rng.random(n) < rng.choice([0.05, 0.5, 0.95])
    return (np.datetime64("1950-01-01") + rng.integers(0, 25000, n).astype("timedelta64[D]")).astype("datetime64[ns]")


def _direct(item):
    from _gettsim import aggregation as ag
    from _gettsim.shared import join_numpy
    from vf import contracts
    from vf.core import rng_for

    res = dict(kind="direct", calls=0, violations=[], by_primitive={}, loud={}, samples=[])
    for c in range(item["cases"]):
        rng = rng_for(item["seed"], PROPERTY, 1, item["k"], c)
        n = int(rng.choice([1, 2, 3, 7, 50, 400]))
        if c == 7 and item["k"] % 4 == 0:
            n = 4500  # above 4096 rows (n*n > 2**24): size-dependent code paths
        ids = _ids(rng, n)
        for prim, colkinds in (("sum", ["float", "int", "bool"]), ("mean", ["float"]), ("max", ["float", "int", "date"]),
                               ("min", ["float", "int", "date"]), ("any", ["bool", "int"]), ("all", ["bool", "int"])):
            ck = str(rng.choice(colkinds))
            col = _column(rng, n, ck)
            try:
                getattr(ag, f"grouped_{prim}")(col, ids)
                res["calls"] += 1
                res["by_primitive"][f"grouped_{prim}:{ck}"] = res["by_primitive"].get(f"grouped_{prim}:{ck}", 0) + 1
            except Exception as e:  # noqa: BLE001
                res["loud"][f"grouped_{prim}:{ck}:{type(e).__name__}"] = res["loud"].get(f"grouped_{prim}:{ck}:{type(e).__name__}", 0) + 1
        ag.grouped_count(ids)
        res["calls"] += 1
        # pointers: to any person, chains, -1, -2
        p_id = rng.permutation(n) * 3 + int(rng.integers(0, 50))
        if c % 3 == 0:
            p_id = rng.permutation(n)  # exactly 0..n-1 but not in row order (positions are not ids)
        elif c % 7 == 1:
            p_id = rng.permutation(n) * 2 + 2 ** 53 + 1  # very large ids, not representable as float64
        ptr = np.where(rng.random(n) < 0.4, -1, p_id[rng.integers(0, n, n)])
        ptr = np.where(rng.random(n) < 0.05, -2, ptr)
        for ck in ("float", "int", "bool"):
            ag.sum_by_p_id(_column(rng, n, ck), ptr.astype(np.int64), p_id.astype(np.int64))
            res["calls"] += 1
            res["by_primitive"][f"sum_by_p_id:{ck}"] = res["by_primitive"].get(f"sum_by_p_id:{ck}", 0) + 1
        tgt = _column(rng, n, str(rng.choice(["float", "int", "bool"])))
        fill = tgt.dtype.type(0)
        join_numpy(ptr.astype(np.int64), p_id.astype(np.int64), tgt, fill)
        res["calls"] += 1
        res["by_primitive"]["join_numpy"] = res["by_primitive"].get("join_numpy", 0) + 1
        if c == 0:
            res["samples"].append(dict(n=n, ids=ids[:8].tolist(), pointers=ptr[:8].tolist(), p_id=p_id[:8].tolist()))
    for f in contracts.drain():
        res["violations"].append(dict(key=f"{f['contract']}:definition", what=f"direct call: {f['what']}"))
    res["contract_evaluations"] = dict(contracts.COUNTS)
    contracts.COUNTS.clear()
    return res


def _spec_for(t, user_g, builtin_g):
    from _gettsim.shared import remove_group_suffix

    if t in user_g:
        return user_g[t], "user"
    if t in builtin_g:
        return builtin_g[t], "builtin"
    return dict(aggr="sum", source_col=remove_group_suffix(t)), "automatic"


def _check_group_node(T, t, spec, viol, origin):
    from vf import shadow

    lvl = next((l for l in ("wthh", "hh", "fg", "bg", "eg", "ehe", "sn") if t.endswith("_" + l)), None)
    if lvl is None or f"{lvl}_id" not in T.columns:
        return False
    ids = T[f"{lvl}_id"].tolist()
    src = None if spec["aggr"] == "count" else T[spec["source_col"]].tolist()
    want, members = shadow.group_reference(spec["aggr"], src, ids)
    got = T[t].tolist()
    for i, (w, g) in enumerate(zip(want, got)):
        ok = (bool(w) == bool(g)) if isinstance(w, bool) else (w == g or abs(float(w) - float(g)) <= 1e-9 * max(1.0, abs(float(w))))
        if not ok:
            viol(f"{t}:{origin}", f"{t} ({origin} spec {spec}) row {i}: {g!r}, definition over members {members[ids[i]][:6]} of {lvl} {ids[i]} gives {w!r}")
            return True
    return True


def _system(item):
    from _gettsim.functions_loader import load_aggregation_dict
    from vf import contracts, env, popgen
    from vf.core import rng_for

    d = datetime.date.fromisoformat(item["date"])
    rng = rng_for(item["seed"], PROPERTY, d.toordinal(), item["k"])
    params, functions = env.environment(d)
    df = popgen.population(rng, d, n_hh=9, params=params)
    pm = popgen.random_injective(rng, df["p_id"].tolist(), 5000)
    hm = popgen.random_injective(rng, sorted(df["hh_id"].unique().tolist()), 5000)
    df = popgen.relabel(df, pm, hm).iloc[rng.permutation(len(df))].reset_index(drop=True)
    res = dict(kind="system", date=item["date"], pop=popgen.digest(df), violations=[], agg_nodes=0, suffix_requests=0,
               user_specs=0, calls=0, by_origin={}, samples=[])

    def viol(key, what):
        res["violations"].append(dict(key=key, what=what, date=item["date"]))

    builtin_g = load_aggregation_dict("aggregate_by_group")
    builtin_p = load_aggregation_dict("aggregate_by_p_id")
    T, nodes, roots, dag, fn = env.trace(df, params, functions)
    kinds = env.classify(fn)
    for t in nodes:
        if kinds[t] == "agg_group":
            spec, origin = _spec_for(t, {}, builtin_g)
            if _check_group_node(T, t, spec, viol, origin):
                res["agg_nodes"] += 1
                res["by_origin"][origin] = res["by_origin"].get(origin, 0) + 1
        elif kinds[t] == "agg_pid" and t in builtin_p:
            from vf import shadow

            sp = builtin_p[t]
            want = shadow.pid_sum_reference(T[sp["source_col"]].tolist(), T[sp["p_id_to_aggregate_by"]].tolist(), T["p_id"].tolist())
            got = T[t].tolist()
            res["agg_nodes"] += 1
            for i, (w, g) in enumerate(zip(want, got)):
                if not (w == g or abs(float(w) - float(g)) <= 1e-9 * max(1.0, abs(float(w)))):
                    viol(f"{t}:builtin_p_id", f"{t} person {T['p_id'].iloc[i]}: {g!r}, rows pointing here via {sp['p_id_to_aggregate_by']} sum to {w!r}")
                    break
    # individual-level columns requested with each group suffix
    indiv = [t for t in nodes + roots if not any(t.endswith("_" + l) for l in LEVELS) and not t.endswith("_id")
             and not t.startswith("p_id") and t in T.columns and T[t].dtype.kind in "fib"]
    for _ in range(10):
        x = indiv[int(rng.integers(0, len(indiv)))]
        lvl = LEVELS[int(rng.integers(0, len(LEVELS)))]
        t = f"{x}_{lvl}"
        if t in fn or t in df.columns:
            continue
        try:
            out = env.simulate(df, params, functions, [t, f"{lvl}_id"] if f"{lvl}_id" != "hh_id" else [t])
        except Exception as e:  # noqa: BLE001
            viol(f"suffix_request:{type(e).__name__}", f"requesting {t} raises {type(e).__name__}: {str(e)[:150]}")
            continue
        res["suffix_requests"] += 1
        T2 = T.copy()
        T2[t] = out[t].to_numpy()
        _check_group_node(T2, t, dict(aggr="sum", source_col=x), viol, "automatic_requested")
    # user specs override built-in specs and automatic sums
    cand_builtin = [t for t in nodes if kinds[t] == "agg_group" and t in builtin_g and builtin_g[t]["aggr"] in ("sum", "max", "min", "any", "all")]
    cand_auto = [t for t in nodes if kinds[t] == "agg_group" and t not in builtin_g]
    for pool, origin in ((cand_builtin, "user_over_builtin"), (cand_auto, "user_over_automatic")):
        for _ in range(3):
            if not pool:
                continue
            t = pool[int(rng.integers(0, len(pool)))]
            spec0, _ = _spec_for(t, {}, builtin_g)
            src = spec0.get("source_col")
            if src is None or src not in T.columns:
                continue
            kind = T[src].dtype.kind
            new = {"f": ["max", "min", "mean"], "i": ["max", "min"], "b": ["any", "all", "sum"]}.get(kind)
            if not new:
                continue
            aggr = str(rng.choice([a for a in new if a != spec0["aggr"]] or new))
            uspec = {t: dict(aggr=aggr, source_col=src)}
            try:
                with warnings.catch_warnings():
                    warnings.simplefilter("ignore")
                    out = env.compute_taxes_and_transfers(df, params, functions, targets=[t], aggregate_by_group_specs=uspec)
            except Exception as e:  # noqa: BLE001
                viol(f"user_spec:{type(e).__name__}", f"user spec {uspec} raises {type(e).__name__}: {str(e)[:150]}")
                continue
            res["user_specs"] += 1
            T2 = T.copy()
            T2[t] = out[t].to_numpy()
            _check_group_node(T2, t, uspec[t], viol, origin)
    # a built-in spec must win over the automatic sum that becomes possible when a column with the base name exists
    for t in [x for x in cand_builtin if builtin_g[x]["aggr"] == "sum"][:3]:
        from _gettsim.shared import remove_group_suffix

        base = remove_group_suffix(t)
        if base in fn or base in df.columns or base == t:
            continue

        def _const(alter: int) -> float:
            return 1000.0 + alter

        _const.__name__ = base
        try:
            with warnings.catch_warnings():
                warnings.simplefilter("ignore")
                out = env.compute_taxes_and_transfers(df, params, [functions, _const], targets=[t])
        except Exception as e:  # noqa: BLE001
            viol(f"builtin_vs_automatic:{type(e).__name__}", f"adding a user column {base} makes {t} fail: {str(e)[:150]}")
            continue
        res["user_specs"] += 1
        res["by_origin"]["builtin_vs_automatic"] = res["by_origin"].get("builtin_vs_automatic", 0) + 1
        T2 = T.copy()
        T2[t] = out[t].to_numpy()
        _check_group_node(T2, t, builtin_g[t], viol, "builtin_over_automatic")
    # user p_id spec overriding a built-in one (other source column)
    for t, sp in list(builtin_p.items())[:3]:
        if t not in nodes or sp["aggr"] != "sum":
            continue
        from vf import shadow

        uspec = {t: dict(aggr="sum", source_col="bruttolohn_m", p_id_to_aggregate_by=sp["p_id_to_aggregate_by"])}
        try:
            with warnings.catch_warnings():
                warnings.simplefilter("ignore")
                out = env.compute_taxes_and_transfers(df, params, functions, targets=[t], aggregate_by_p_id_specs=uspec)
        except Exception as e:  # noqa: BLE001
            viol(f"user_p_id_spec:{type(e).__name__}", f"user p_id spec {uspec} raises: {str(e)[:150]}")
            continue
        res["user_specs"] += 1
        want = shadow.pid_sum_reference(df["bruttolohn_m"].tolist(), T[sp["p_id_to_aggregate_by"]].tolist(), df["p_id"].tolist())
        if not np.allclose(out[t].to_numpy().astype(float), np.array(want, dtype=float), rtol=1e-9, atol=1e-9):
            viol(f"{t}:user_over_builtin_p_id", f"user p_id spec for {t} (source bruttolohn_m) is not what was computed")
    # one spec dict OBJECT registered under several names with different group suffixes (the way the package writes its own
    # demographic aggregates): each name aggregates over its own level, and the caller's dicts stay as they were
    import copy as _copy

    levels = [l for l in ("hh", "fg", "bg", "eg", "ehe", "sn", "wthh") if f"{l}_id" in T.columns]
    for aggr, src in (("max", "bruttolohn_m"), ("any", "rentner"), ("sum", "alter")):
        shared = dict(aggr=aggr, source_col=src)
        order = [levels[i] for i in rng.permutation(len(levels))]
        uspec = {f"vf_shared_{aggr}_{l}": shared for l in order}
        snap = _copy.deepcopy(uspec)
        for rep in range(2):  # the second call re-uses the very same objects
            try:
                with warnings.catch_warnings():
                    warnings.simplefilter("ignore")
                    out = env.compute_taxes_and_transfers(df, params, functions, targets=list(uspec)[::-1] if rep else list(uspec),
                                                          aggregate_by_group_specs=uspec)
            except Exception as e:  # noqa: BLE001
                viol(f"shared_spec:{type(e).__name__}", f"one spec dict shared by {list(uspec)} raises {type(e).__name__}: {str(e)[:150]}")
                break
            res["user_specs"] += 1
            res["by_origin"]["shared_spec_object"] = res["by_origin"].get("shared_spec_object", 0) + 1
            if uspec != snap:
                viol("shared_spec:caller_dict_modified", f"the aggregation specs passed by the caller were modified by the call: {str(uspec)[:300]} (before: {str(snap)[:200]})")
            T2 = T.copy()
            for t in uspec:
                T2[t] = out[t].to_numpy()
                _check_group_node(T2, t, snap[t], viol, "user_shared_spec_object")
    # after the calls with user specs: the built-in definitions must be back (no spec leaks into later calls)
    agg_nodes = [t for t in nodes if kinds[t] in ("agg_group", "agg_pid")]
    try:
        again = env.simulate(df, params, functions, agg_nodes)
        for t in agg_nodes:
            a, b = T[t].to_numpy(), again[t].to_numpy()
            if not (a.dtype == b.dtype and np.array_equal(a, b, equal_nan=a.dtype.kind == "f")):
                viol(f"{t}:spec_leaks_into_later_call", f"{t} computed without any user spec differs after earlier calls that passed user specs "
                                                         f"(a user specification leaked into a later call)")
                break
        res["later_call_rechecks"] = len(agg_nodes)
    except Exception as e:  # noqa: BLE001
        viol(f"later_call:{type(e).__name__}", f"aggregates cannot be recomputed after calls with user specs: {str(e)[:150]}")
    for f in contracts.drain():
        res["violations"].append(dict(key=f"{f['contract']}:definition", what=f"during a system run at {item['date']}: {f['what']}", date=item["date"]))
    res["contract_evaluations"] = dict(contracts.COUNTS)
    contracts.COUNTS.clear()
    res["samples"].append(dict(date=item["date"], population=popgen.describe(df)))
    return res


def summarize(results, tier, seed):
    ok = [r for r in results if "_harness_error" not in r]
    viol = [dict(key=v["key"], what=v["what"], witness=v, item=r["_item"]) for r in ok for v in r["violations"]]
    ev = {}
    for r in ok:
        for k, v in r["contract_evaluations"].items():
            ev[k] = ev.get(k, 0) + v
    byp, loud = {}, {}
    for r in ok:
        for k, v in r.get("by_primitive", {}).items():
            byp[k] = byp.get(k, 0) + v
        for k, v in r.get("loud", {}).items():
            loud[k] = loud.get(k, 0) + v
    sysr = [r for r in ok if r["kind"] == "system"]
    inconclusive = []
    for prim in ("grouped_sum", "grouped_mean", "grouped_max", "grouped_min", "grouped_any", "grouped_all",
                 "grouped_count", "sum_by_p_id", "join_numpy"):
        if ev.get(prim, 0) == 0:
            inconclusive.append(f"contract on {prim} was never evaluated")
    if sum(r["user_specs"] for r in sysr) == 0:
        inconclusive.append("no user spec override exercised")
    origin = {}
    for r in sysr:
        for k, v in r["by_origin"].items():
            origin[k] = origin.get(k, 0) + v
    direct_cases = sum(r["_item"]["cases"] for r in ok if r["kind"] == "direct")
    cov = dict(
        evaluations=sum(ev.values()),
        distinct_nontrivial=direct_cases + sum(r["agg_nodes"] + r["suffix_requests"] + r["user_specs"] for r in sysr),
        rule="evaluation = one contract evaluation on a real call of an aggregation primitive; distinct non-trivial = "
             "direct hostile cases (each with freshly drawn ids / columns / pointers, n in {1,2,3,7,50,400}) plus "
             "aggregation nodes, suffix requests and user-spec runs compared through the API",
        contract_evaluations=ev, direct_calls_by_primitive=byp, loud_rejections=loud,
        api_aggregation_nodes_checked=sum(r["agg_nodes"] for r in sysr), api_nodes_by_spec_origin=origin,
        suffix_requests=sum(r["suffix_requests"] for r in sysr), user_spec_runs=sum(r["user_specs"] for r in sysr),
        aggregates_rechecked_after_user_spec_calls=sum(r.get("later_call_rechecks", 0) for r in sysr),
        samples=[s for r in ok[:2] for s in r["samples"][:1]] + [s for r in sysr[:1] for s in r["samples"][:1]],
    )
    return dict(coverage=cov, violations=viol, inconclusive=inconclusive,
                assumptions=["ids < 100000, n <= 400 in the direct workload", "float sums compared within 1e-9 relative of math.fsum",
                             "count/any/all/min/max/mean by p_id are not implemented in the repository (NotImplementedError): only sum_by_p_id exists"])

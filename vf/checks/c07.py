"""C07 - the policy environment for a date is exactly the law in force that day.

Monitors over set_up_policy_environment(d) for every calendar day of the window (thorough)
or for every change date, its eve and neighbours, year boundaries, leap days and random days
(quick):
 1. reference model: forward-fold resolver over the raw YAML (vf.refmodels.ParamsRef) compared
    deeply with the raw-level loader and - after exact piecewise parsing - with the final params;
    independent selection of the active implementation per column name;
 2. metamorphic: env(d) == env(d-1) except `datum` whenever d is not a change date.
"""
from __future__ import annotations

import datetime

import numpy as np

PROPERTY = "C07"
LEVEL = "exploration"
START = datetime.date(1980, 1, 1)
ONE = datetime.timedelta(days=1)
YEAR_DERIVED = {("eink_st_abzuege", "einführungsfaktor_vorsorgeaufw_alter_ab_2005"),
                ("eink_st_abzuege", "vorsorgepauschale_rentenv_anteil"),
                ("kinderzuschl", "maximum")}


def _ref():
    from vf import env
    from vf.refmodels import ParamsRef

    return ParamsRef(env.raw_yaml)


def change_set():
    """Days on which the environment may legitimately differ from the day before."""
    from vf import env

    ref = _ref()
    C = set(env.change_dates())
    for g in env.INTERNAL_PARAMS_GROUPS:
        if ref.vorjahr_params(g):
            for c in ref.dated_keys(g):
                for dd in (0, 1):
                    try:
                        C.add(c.replace(year=c.year + 1) + datetime.timedelta(days=dd))
                    except ValueError:
                        C.add(datetime.date(c.year + 1, 3, 1))
    for y in range(1979, 2100):
        C.add(datetime.date(y, 1, 1))  # jahresanfang look-ups and the year-derived values
    return C


def plan(tier, seed):
    from vf import env
    from vf.core import rng_for

    end = env.last_param_date().replace(year=env.last_param_date().year + 1)
    if tier == "thorough":
        days = [START + datetime.timedelta(days=i) for i in range((end - START).days + 1)]
    else:
        r = rng_for(seed, PROPERTY, 0)
        S = set()
        for c in env.change_dates():
            if START <= c <= end:
                S |= {c - ONE, c, c + ONE}
        for y in range(START.year, end.year + 1):
            S |= {datetime.date(y, 1, 1), datetime.date(y, 12, 31), datetime.date(y, 2, 28), datetime.date(y, 3, 1)}
            if y % 4 == 0:
                S.add(datetime.date(y, 2, 29))
        n = (end - START).days
        for i in r.choice(n, 300, replace=False):
            S.add(START + datetime.timedelta(days=int(i)))
        days = sorted(d for d in S if START <= d <= end)
    chunk = 40
    return [dict(days=[str(d) for d in days[i:i + chunk]], seed=seed, validate=(i == 0))
            for i in range(0, len(days), chunk)]


_STATE = {}


def worker_init():
    _STATE["C"] = change_set()
    _STATE["ref"] = _ref()


def _cmp_piecewise(raw, prod, path):
    """Compare a folded raw piecewise parameter with the production arrays."""
    from vf.refmodels import Schedule

    try:
        s = Schedule(raw, path)
    except Exception as e:  # noqa: BLE001
        return f"{path}: reference cannot parse schedule: {e}"
    if not isinstance(prod, dict) or set(prod) - {"thresholds", "rates", "intercepts_at_lower_thresholds"} != set(
            k for k in raw if not isinstance(k, int) and k not in ("type", "progressionsfaktor")):
        extra = sorted(map(str, set(prod) ^ ({"thresholds", "rates", "intercepts_at_lower_thresholds"} | {
            k for k in raw if not isinstance(k, int) and k not in ("type", "progressionsfaktor")})))
        if extra:
            return f"{path}: keys differ {extra}"
    th = [float(x) for x in s.thresholds]
    if list(prod["thresholds"]) != th:
        return f"{path}: thresholds {list(prod['thresholds'])} != {th}"
    for p in range(s.degree):
        for i in range(len(s.lower)):
            want = float(s.rates[p][i])
            got = float(prod["rates"][p][i])
            if not (got == want or abs(got - want) <= 1e-12 * max(1.0, abs(want))):
                return f"{path}: rate[{p}][{i}] {got!r} != {want!r}"
    if prod["rates"].shape != (s.degree, len(s.lower)):
        return f"{path}: rates shape {prod['rates'].shape}"
    for i, ic in enumerate(s.intercepts):
        want = float(ic)
        got = float(prod["intercepts_at_lower_thresholds"][i])
        if not (got == want or abs(got - want) <= 1e-9 * max(1.0, abs(want))):
            return f"{path}: intercept[{i}] {got!r} != {want!r}"
    return None


def _compare_final(g, refraw, prod, date):
    """Final params[g] vs the reference raw group (piecewise parsed exactly)."""
    from vf import env

    for k in refraw:
        if k not in prod:
            return f"{g}/{k}: missing in the environment"
    for k in prod:
        if k not in refraw and (g, k) not in YEAR_DERIVED:
            return f"{g}/{k}: not in any parameter file at {date}"
    for k, rv in refraw.items():
        pv = prod[k]
        if (g, k) in YEAR_DERIVED:
            continue
        if isinstance(rv, dict) and str(rv.get("type", "")).startswith("piecewise"):
            r = _cmp_piecewise(rv, pv, f"{g}/{k}")
        else:
            if isinstance(rv, dict):
                rv = {a: b for a, b in rv.items() if a not in ("type", "progressionsfaktor")}
            r = env.deep_equal(rv, pv, f"{g}/{k}")
        if r:
            return r
    return None


def run_item(item):
    from _gettsim.policy_environment import _load_parameter_group_from_yaml
    from vf import env

    C, ref = _STATE["C"], _STATE["ref"]
    res = dict(days=0, first=item["days"][0], last=item["days"][-1], param_values=0, violations=[],
               unchanged_pairs=0, change_days=0, functions_checked=0, memo_validated=0, switch_days=0)

    def viol(key, what, **kw):
        res["violations"].append(dict(key=key, what=what, **kw))

    if item.get("validate"):
        bad = env.validate_memo([item["days"][0], item["days"][-1], "2021-06-15"])
        res["memo_validated"] = 3
        if bad:
            viol("harness:yaml_memo", f"memoised YAML differs from uncached set-up: {bad[:2]}")
    allf = [f for f in env.all_internal_functions().values()]
    # a caller edits every nested value of an environment it was handed; all set-ups below happen afterwards
    from _gettsim.policy_environment import set_up_policy_environment as _setup

    def _poison(o):
        if isinstance(o, dict):
            for k in list(o):
                v = o[k]
                if isinstance(v, dict):
                    _poison(v)
                elif isinstance(v, np.ndarray) and v.dtype.kind == "f":
                    v *= 3.0
                elif isinstance(v, (int, float)) and not isinstance(v, bool):
                    o[k] = v * 3 + 1

    for ds_ in (item["days"][0], item["days"][len(item["days"]) // 2]):
        try:
            pp, _ = _setup(datetime.date.fromisoformat(ds_))
            _poison(pp)
            res["poisoned_environments"] = res.get("poisoned_environments", 0) + 1
        except Exception:  # noqa: BLE001
            pass
    env._ENV.clear()
    # the date may be given as ISO string or (for 1 January) as an int year: same environment as for the date object
    probe_days = [x for x in item["days"] if int(x[8:10]) <= 12 and x[5:7] != x[8:10]][:3] + item["days"][-1:]
    for ds_ in probe_days:
        d_ = datetime.date.fromisoformat(ds_)
        try:
            p_obj, f_obj = _setup(d_)
            variants = [("iso string", ds_)]
            if d_.month == 1 and d_.day == 1:
                variants.append(("int year", d_.year))
            for label, arg in variants:
                p_str, f_str = _setup(arg)
                r = env.deep_equal(p_obj, p_str, "params")
                res["date_format_variants"] = res.get("date_format_variants", 0) + 1
                if r:
                    viol("date_format", f"set_up_policy_environment({arg!r}) ({label}) differs from the environment for the date object {ds_}: {r[:200]}", date=ds_)
                elif {k: id(v) for k, v in f_obj.items()} != {k: id(v) for k, v in f_str.items()}:
                    viol("date_format", f"set_up_policy_environment({arg!r}) ({label}) selects other implementations than for the date object {ds_}", date=ds_)
        except Exception as e:  # noqa: BLE001
            viol(f"date_format:exception:{type(e).__name__}", f"set_up_policy_environment for {ds_!r} as string raises: {str(e)[:150]}", date=ds_)
    for ds in item["days"]:
        d = datetime.date.fromisoformat(ds)
        try:
            params, functions = env.environment(d)
        except Exception as e:  # noqa: BLE001
            viol(f"setup:exception:{type(e).__name__}", f"set_up_policy_environment({ds}) raises {type(e).__name__}: {str(e)[:200]}", date=ds)
            continue
        res["days"] += 1
        # ---- oracle 1a: raw-level loader vs forward fold
        for g in env.INTERNAL_PARAMS_GROUPS:
            try:
                want = ref.group(g, d)
            except Exception as e:  # noqa: BLE001
                viol(f"reference:exception:{g}", f"reference resolver fails for {g} at {ds}: {type(e).__name__} {e}", date=ds)
                continue
            got = _load_parameter_group_from_yaml(d, g)
            r = env.deep_equal(want, got, g)
            res["param_values"] += len(want)
            if r:
                pname = r.split(":")[0].split("/")[1] if "/" in r else "?"
                viol(f"raw:{g}/{pname}", f"{ds}: loader differs from the forward-fold reference at {r}", date=ds)
            r = _compare_final(g, want, params[g], ds)
            if r:
                pname = r.split(":")[0]
                viol(f"final:{pname}", f"{ds}: environment differs from the reference at {r}", date=ds)
        if set(params) != set(env.INTERNAL_PARAMS_GROUPS):
            viol("groups", f"{ds}: parameter groups {sorted(set(params) ^ set(env.INTERNAL_PARAMS_GROUPS))}")
        # ---- oracle 1b: exactly one active implementation per column name
        want_f = {}
        for f in allf:
            info = getattr(f, "__info__", None)
            if info and "name_in_dag" in info:
                if info["start_date"] <= d and d <= info["end_date"]:
                    if info["name_in_dag"] in want_f:
                        viol(f"functions:overlap:{info['name_in_dag']}", f"{ds}: two implementations active for {info['name_in_dag']}")
                    want_f[info["name_in_dag"]] = f
            else:
                want_f[f.__name__] = f
        res["functions_checked"] += len(want_f)
        if set(want_f) != set(functions):
            x = sorted(set(want_f) ^ set(functions))
            viol(f"functions:set:{x[0]}", f"{ds}: active column names differ: {x[:5]}", date=ds)
        else:
            for k in want_f:
                if want_f[k] is not functions[k]:
                    viol(f"functions:impl:{k}", f"{ds}: {k} -> {functions[k].__name__}, expected {want_f[k].__name__}", date=ds)
                    break
        # ---- oracle 2: nothing changes between change dates
        if d not in C and d > START:
            p0, f0 = env.environment(d - ONE)
            for g in params:
                a = {k: v for k, v in params[g].items() if k != "datum"}
                b = {k: v for k, v in p0[g].items() if k != "datum"}
                r = env.deep_equal(b, a, g)
                if r:
                    viol(f"drift:{r.split(':')[0]}", f"{ds} is not a change date but the environment differs from the day before at {r}", date=ds)
            if {k: id(v) for k, v in functions.items()} != {k: id(v) for k, v in f0.items()}:
                viol("drift:functions", f"{ds} is not a change date but the active functions differ from the day before", date=ds)
            res["unchanged_pairs"] += 1
        elif d in C:
            res["change_days"] += 1
        if params["eink_st"]["datum"] != np.datetime64(d):
            viol("datum", f"{ds}: datum is {params['eink_st']['datum']}")
    return res


def summarize(results, tier, seed):
    ok = [r for r in results if "_harness_error" not in r]
    viol = [dict(key=v["key"], what=v["what"], witness=v, item=r["_item"]) for r in ok for v in r["violations"]]
    days = sum(r["days"] for r in ok)
    inconclusive = []
    if sum(r["memo_validated"] for r in ok) == 0:
        inconclusive.append("YAML memo was not validated in this run")
    if sum(r["unchanged_pairs"] for r in ok) < 100:
        inconclusive.append("fewer than 100 consecutive-day pairs compared")
    cov = dict(
        evaluations=days,
        distinct_nontrivial=days,
        exhaustive=(tier == "thorough"),
        rule="evaluation = one set_up_policy_environment(d) for a distinct calendar day d, compared with the "
             "forward-fold reference (all groups, all parameters, piecewise schedules parsed exactly, active "
             "implementations) and, if d is not a change date, with the environment of d-1; every day is a "
             "distinct case; thorough = every day 1980-01-01 .. last parameter entry + 1 year",
        first_day=min((r["first"] for r in ok), default=None),
        last_day=max((r["last"] for r in ok), default=None),
        parameter_values_compared=sum(r["param_values"] for r in ok),
        function_selections_compared=sum(r["functions_checked"] for r in ok),
        consecutive_day_pairs_compared=sum(r["unchanged_pairs"] for r in ok),
        change_days_seen=sum(r["change_days"] for r in ok),
        uncached_setups_compared_with_memo=sum(r["memo_validated"] for r in ok),
        date_format_variants_compared=sum(r.get("date_format_variants", 0) for r in ok),
        environments_edited_in_place_before_the_set_ups=sum(r.get("poisoned_environments", 0) for r in ok),
        samples=[dict(days=r["_item"]["days"][:5]) for r in ok[:3]],
    )
    return dict(coverage=cov, violations=viol, inconclusive=inconclusive,
                assumptions=["whether the YAML files encode the right law is out of scope",
                             "the three year-derived values (einfuehrungsfaktor, vorsorgepauschale_rentenv_anteil, kinderzuschl maximum 2021/22) are only checked for constancy within a year"])

"""C20 - malformed input data are rejected; automatic type conversion is lossless and announced.

Monitors:
 faults   - fault injection into a valid base population: one fault from each enumerated class at
            every eligible row / column (and sampled pairs of faults); the call must raise - a returned
            DataFrame is the violation;
 coercion - every losslessly convertible dtype variant (narrower / unsigned ints, float32 for
            float32-representable values, floats for ints, 0/1 ints and floats for bools) must give the
            results of the canonical run, with a conversion warning whenever a column was converted;
            convert_series_to_internal_type additionally runs under a recording post-condition
            (output equals input value-wise)."""
from __future__ import annotations

import datetime
import warnings

import numpy as np
import pandas as pd

PROPERTY = "C20"
LEVEL = "fault_enumeration"
FOREIGN_KEYS = ["p_id_ehepartner", "p_id_einstandspartner", "p_id_elternteil_1", "p_id_elternteil_2"]


def plan(tier, seed):
    dates = ["2023-01-01"] if tier == "quick" else ["2016-01-01", "2020-01-01", "2023-01-01", "2024-07-01"]
    items = []
    chunks = 16
    for d in dates:
        for k in range(1 if tier == "quick" else 2):
            for c in range(chunks):
                items.append(dict(kind="faults", date=d, k=k, chunk=c, chunks=chunks, seed=seed, tier=tier))
            for c in range(4):
                items.append(dict(kind="coercion", date=d, k=k, chunk=c, chunks=4, seed=seed))
    return items


def base_population(item, params):
    from vf import popgen
    from vf.core import rng_for

    d = datetime.date.fromisoformat(item["date"])
    rng = rng_for(item["seed"], PROPERTY, d.toordinal(), item["k"])
    df = popgen.population(rng, d, n_hh=4, params=params, archetypes=["family_m", "patchwork", "couple_m", "single_parent", "pens_couple"])
    # sparse, unsorted ids
    pm = {int(p): int(3 * p + 2) for p in df["p_id"]}
    # household ids that still fit into 8 / 16 bit integers but whose derived ids (hh_id * 100 + flag)
    # coincide modulo 2**8 resp. 2**16: arithmetic in a narrow dtype makes different households collide
    hostile = [1, 65, 2, 66, 3, 67] if item["k"] % 2 == 0 else [3, 16387, 5, 16389, 9, 16393]
    hm = {int(h): hostile[i % len(hostile)] + 130 * (i // len(hostile)) for i, h in enumerate(sorted(df["hh_id"].unique()))}
    return popgen.relabel(df, pm, hm).iloc[rng.permutation(len(df))].reset_index(drop=True), rng


NARROW_TARGETS = ["eink_st_y_sn", "sozialv_beitr_arbeitnehmer_m"]


def enumerate_faults(df, roots, computed=None, functions=None):
    """All single faults: list of (class, position label, mutation function)."""
    from _gettsim.config import TYPES_INPUT_VARIABLES

    n = len(df)
    pids = df["p_id"].tolist()
    missing_id = max(pids) + 17
    F = []

    def setval(col, i, val, astype=None):
        def m(d):
            d = d.copy()
            if astype is not None:
                d[col] = d[col].astype(astype)
            d.iloc[i, d.columns.get_loc(col)] = val
            return d
        return m

    F.append(("p_id_missing", "column", lambda d: d.drop(columns=["p_id"])))
    for i in range(n):
        j = (i + 1) % n
        F.append(("p_id_duplicate", f"row{i}", setval("p_id", i, pids[j])))
        F.append(("p_id_nan", f"row{i}", setval("p_id", i, np.nan, astype=float)))
    # duplicates far apart, between persons nobody points to (no second fault), judged on targets whose computation never
    # looks persons up by identifier - only the up-front check can reject them
    referenced = set()
    for fk in FOREIGN_KEYS:
        if fk in df.columns:
            referenced |= set(df[fk].tolist())
    free_rows = [i for i in range(n) if pids[i] not in referenced]
    pairs = [(i, j) for i in free_rows for j in free_rows if j - i >= 2][:: max(1, len(free_rows))]
    for i, j in pairs[:8] + ([(free_rows[0], free_rows[-1])] if len(free_rows) >= 2 and free_rows[-1] - free_rows[0] >= 2 else []):
        F.append(("p_id_duplicate_non_adjacent", f"row{i}=row{j}", setval("p_id", i, pids[j]), NARROW_TARGETS))
        F.append(("p_id_duplicate_non_adjacent", f"row{j}=row{i}", setval("p_id", j, pids[i]), NARROW_TARGETS))
    for fk in FOREIGN_KEYS:
        for i in range(n):
            F.append((f"pointer_to_missing:{fk}", f"row{i}", setval(fk, i, missing_id)))
            F.append((f"pointer_to_missing_negative:{fk}", f"row{i}", setval(fk, i, -2 if i % 2 else -99)))
            F.append((f"pointer_to_self:{fk}", f"row{i}", setval(fk, i, pids[i])))
    hh_cols = [c for c in df.columns if c.endswith("_hh")]
    multi = df.groupby("hh_id")["p_id"].transform("count").to_numpy() > 1
    for c in hh_cols:
        for i in range(n):
            if not multi[i]:
                continue
            v = df[c].iloc[i]
            nv = (not v) if df[c].dtype.kind == "b" else (v + 1)
            F.append((f"hh_level_varies:{c}", f"row{i}", setval(c, i, nv)))
            if df[c].dtype.kind == "f":
                # one member's value missing / different by one ulp: still not one value per household
                F.append((f"hh_level_varies_missing_value:{c}", f"row{i}", setval(c, i, np.nan)))
                F.append((f"hh_level_varies_by_one_ulp:{c}", f"row{i}", setval(c, i, float(np.nextafter(v, np.inf)))))
    for i in range(n):
        if df["p_id_ehepartner"].iloc[i] >= 0:
            F.append(("spouses_disagree:gemeinsam_veranlagt", f"row{i}", setval("gemeinsam_veranlagt", i, not df["gemeinsam_veranlagt"].iloc[i])))
    for c in roots:
        if c in df.columns and c != "p_id":
            F.append((f"required_column_dropped", c, (lambda cc: lambda d: d.drop(columns=[cc]))(c)))
    F.append(("duplicate_column_name", "bruttolohn_m", lambda d: pd.concat([d, d[["bruttolohn_m"]]], axis=1)))
    F.append(("duplicate_column_name", "alter", lambda d: pd.concat([d[["alter"]], d], axis=1)))
    for c, t in TYPES_INPUT_VARIABLES.items():
        if c not in df.columns:
            continue
        for i in range(n):
            if t is int and not c.startswith("p_id") and c not in ("hh_id",):
                F.append((f"fractional_in_int_column", f"{c}:row{i}", setval(c, i, float(df[c].iloc[i]) + 0.5, astype=float)))
                if i % 4 == 0:  # fractional parts that are small in absolute or relative terms
                    v0 = float(df[c].iloc[i])
                    F.append((f"fractional_in_int_column_small", f"{c}:row{i}:+1e-7", setval(c, i, v0 + 1e-7 * max(1.0, abs(v0)), astype=float)))
                    F.append((f"fractional_in_int_column_small", f"{c}:row{i}:+0.01", setval(c, i, v0 + 0.01, astype=float)))
            if t is bool:
                F.append((f"non_boolean_in_bool_column", f"{c}:row{i}", setval(c, i, 2 + i % 3, astype=np.int64)))
                F.append((f"non_boolean_in_bool_column_float", f"{c}:row{i}", setval(c, i, 0.5, astype=float)))
        if i:  # one object-typed variant per column
            F.append(("object_column", c, (lambda cc: lambda d: d.assign(**{cc: d[cc].astype(object).where(d.index != 0, "x")}))(c)))
    # a data column that REPLACES a rule is held to the rule's declared type: its own computed values with one malformed cell
    if computed is not None:
        rules = [c for c in computed.columns if c in functions and c not in df.columns
                 and getattr(functions[c], "__annotations__", {}).get("return") in (bool, int)]
        for c in rules[:: max(1, len(rules) // 24)]:
            rt = functions[c].__annotations__["return"]
            vals = computed[c].to_numpy()
            for i in (0, n // 2, n - 1):
                if rt is bool:
                    F.append(("overriding_column_non_boolean", f"{c}:row{i}",
                              (lambda cc, vv, ii: lambda d: d.assign(**{cc: np.where(np.arange(len(d)) == ii, 2, vv.astype(np.int64))}))(c, vals, i)))
                else:
                    F.append(("overriding_column_fractional", f"{c}:row{i}",
                              (lambda cc, vv, ii: lambda d: d.assign(**{cc: np.where(np.arange(len(d)) == ii, vv.astype(float) + 0.5, vv.astype(float))}))(c, vals, i)))
            F.append(("overriding_column_object", c, (lambda cc, vv: lambda d: d.assign(**{cc: pd.Series(vv, index=d.index).astype(object).where(d.index != 0, "x")}))(c, vals)))
    return F


def run_item(item):
    return _faults(item) if item["kind"] == "faults" else _coercion(item)


def _call(env, data, params, functions, targets=None):
    with warnings.catch_warnings(record=True) as w:
        warnings.simplefilter("always")
        out = env.compute_taxes_and_transfers(data, params, functions, targets=targets)
    return out, w


def _faults(item):
    from _gettsim.config import DEFAULT_TARGETS
    from vf import env

    d = datetime.date.fromisoformat(item["date"])
    params, functions = env.environment(d)
    df, rng = base_population(item, params)
    res = dict(kind="faults", date=item["date"], violations=[], injected=0, rejected=0, classes={}, pairs=0, errors={}, samples=[])
    nodes, roots, dag, fn = env.graph(functions, list(df.columns))
    # the base population itself must be accepted
    try:
        _call(env, df, params, functions)
    except Exception as e:  # noqa: BLE001
        res["violations"].append(dict(key="base_rejected", what=f"the valid base population is rejected: {type(e).__name__} {str(e)[:200]}"))
        return res
    computed = env.simulate(df, params, functions, nodes)
    F = enumerate_faults(df, roots, computed, functions)
    mine = [f for i, f in enumerate(F) if i % item["chunks"] == item["chunk"]]
    if item["tier"] == "quick":
        # every class and column, a deterministic third of the row positions
        mine = [f for j, f in enumerate(mine) if (not f[1].split(":")[-1].startswith("row")) or j % 3 == 0 or "pointer" in f[0] or "p_id" in f[0] or f[0].startswith("hh_level_varies:") or "spouses" in f[0] or f[0].startswith("overriding")]
    for cls, pos, mut, *rest in mine:
        try:
            data = mut(df)
        except Exception:  # noqa: BLE001
            continue
        res["injected"] += 1
        res["classes"][cls.split(":")[0]] = res["classes"].get(cls.split(":")[0], 0) + 1
        try:
            out, _ = _call(env, data, params, functions, rest[0] if rest else None)
        except Exception as e:  # noqa: BLE001
            res["rejected"] += 1
            k = f"{cls.split(':')[0]}->{type(e).__name__}"
            res["errors"][k] = res["errors"].get(k, 0) + 1
            if len(res["samples"]) < 3:
                res["samples"].append(dict(fault=cls, position=pos, error=f"{type(e).__name__}: {str(e).strip().splitlines()[0][:100] if str(e).strip() else ''}"))
            continue
        res["violations"].append(dict(key=f"accepted:{cls}", what=f"fault {cls} at {pos} was simulated instead of rejected "
                                                                   f"({len(out)} rows returned) at {item['date']}", position=pos))
    # pairs of faults
    for _ in range(6 if item["tier"] == "quick" else 20):
        a, b = (F[int(i)] for i in rng.choice(len(F), 2, replace=False))
        try:
            data = b[2](a[2](df))
        except Exception:  # noqa: BLE001
            continue
        res["pairs"] += 1
        try:
            _call(env, data, params, functions)
        except Exception:  # noqa: BLE001
            res["rejected"] += 1
            continue
        res["violations"].append(dict(key=f"accepted_pair:{a[0]}+{b[0]}", what=f"faults {a[0]}@{a[1]} and {b[0]}@{b[1]} together were simulated instead of rejected"))
    return res


_CONV = dict(calls=0, failures=[])


def _install_conversion_contract():
    import sys

    import icontract

    from _gettsim import gettsim_typing as gt
    from vf.contracts import ContractBroken

    if getattr(gt.convert_series_to_internal_type, "__vf__", False):
        return
    orig = gt.convert_series_to_internal_type

    def conversion_is_lossless(series, internal_type, result):
        _CONV["calls"] += 1
        try:
            a = series.to_numpy()
            b = result.to_numpy()
            same = len(a) == len(b) and bool(np.all(a.astype(float) == b.astype(float))) if a.dtype.kind in "biuf" and b.dtype.kind in "biuf" else True
            if not same and len(_CONV["failures"]) < 10:
                i = int(np.argmax(a.astype(float) != b.astype(float)))
                _CONV["failures"].append(f"column {series.name}: {a[i]!r} ({a.dtype}) converted to {b[i]!r} ({b.dtype})")
        except Exception as e:  # noqa: BLE001
            _CONV["failures"].append(f"contract error {type(e).__name__}: {e}")
        return True

    wrapped = icontract.ensure(conversion_is_lossless, error=ContractBroken)(orig)
    wrapped.__vf__ = True
    for mn, mod in list(sys.modules.items()):
        if mn.startswith("_gettsim") and mod is not None:
            for k, v in list(vars(mod).items()):
                if v is orig:
                    setattr(mod, k, wrapped)


def _coercion(item):
    from _gettsim.config import TYPES_INPUT_VARIABLES
    from vf import env

    _install_conversion_contract()
    _CONV.update(calls=0, failures=[])
    d = datetime.date.fromisoformat(item["date"])
    params, functions = env.environment(d)
    df, rng = base_population(item, params)
    res = dict(kind="coercion", date=item["date"], violations=[], variants=0, by_variant={}, converted_columns=0, contract_calls=0, samples=[])
    canon, _ = _call(env, df, params, functions)
    cols = [c for c in df.columns if c in TYPES_INPUT_VARIABLES]
    mine = [c for i, c in enumerate(cols) if i % item["chunks"] == item["chunk"]]

    def variants(c):
        a = df[c].to_numpy()
        t = TYPES_INPUT_VARIABLES[c]
        out = []
        if t is int:
            for dt in (np.int8, np.int16, np.int32, np.uint8, np.uint16, np.uint32, np.float64, np.float32):
                try:
                    with warnings.catch_warnings():
                        warnings.simplefilter("ignore")
                        b = a.astype(dt)
                    if np.array_equal(b.astype(np.float64), a.astype(np.float64)):
                        out.append((np.dtype(dt).name, b))
                except (ValueError, OverflowError):
                    pass
        elif t is float:
            b = a.astype(np.float32)
            if np.array_equal(b.astype(np.float64), a):
                out.append(("float32", b))
            if np.array_equal(np.round(a), a) and np.abs(a).max() < 2 ** 31:
                out.append(("int64", a.astype(np.int64)))
                out.append(("int32", a.astype(np.int32)))
        elif t is bool:
            out += [("int64", a.astype(np.int64)), ("int8", a.astype(np.int8)), ("float64", a.astype(np.float64)), ("uint8", a.astype(np.uint8))]
        return out

    def compare(out, label, converted_expected, w, ncols=1):
        res["variants"] += 1
        res["by_variant"][label.split(":")[1]] = res["by_variant"].get(label.split(":")[1], 0) + 1
        for t in canon.columns:
            a, b = canon[t].to_numpy().astype(float), out[t].to_numpy().astype(float)
            if not np.all((a == b) | (np.isnan(a) & np.isnan(b))):
                i = int(np.argmax(~((a == b) | (np.isnan(a) & np.isnan(b)))))
                res["violations"].append(dict(
                    key=f"value_changed:{label.split(':')[1]}", what=f"supplying {label.split(':')[0]} as {label.split(':')[1]} (same values) changes "
                    f"{t}: {a[i]!r} -> {b[i]!r} at {item['date']}", column=label.split(":")[0]))
                return
        if converted_expected and not any("have been converted" in str(x.message) for x in w):
            pass  # conversion may legitimately not be needed if the dtype is accepted as is

    for c in mine:
        for name, arr in variants(c):
            data = df.copy()
            data[c] = arr
            try:
                out, w = _call(env, data, params, functions)
            except Exception as e:  # noqa: BLE001
                res["violations"].append(dict(key=f"lossless_variant_rejected:{name}",
                                              what=f"column {c} supplied as {name} with identical values is rejected or fails: {type(e).__name__}: {str(e)[:160]}", column=c))
                continue
            conv = [x for x in w if "have been converted" in str(x.message)]
            if conv and c in str(conv[0].message):
                res["converted_columns"] += 1
            compare(out, f"{c}:{name}", True, w)
            if len(res["samples"]) < 2:
                res["samples"].append(dict(column=c, supplied_as=name, warned=bool(conv)))
    # all columns at once in a narrower dtype
    for name in ("int32", "float32", "int8"):
        data = df.copy()
        for c in cols:
            for nm, arr in variants(c):
                if nm == name:
                    data[c] = arr
        try:
            out, w = _call(env, data, params, functions)
            compare(out, f"all_columns:{name}", True, w)
        except Exception as e:  # noqa: BLE001
            res["violations"].append(dict(key=f"lossless_variant_rejected:{name}", what=f"all columns as {name} (identical values) fails: {type(e).__name__}: {str(e)[:160]}"))
    res["contract_calls"] = _CONV["calls"]
    for f in _CONV["failures"]:
        res["violations"].append(dict(key="conversion_changes_value", what=f"convert_series_to_internal_type: {f}"))
    return res


def summarize(results, tier, seed):
    ok = [r for r in results if "_harness_error" not in r]
    viol = [dict(key=v["key"], what=v["what"], witness=v, item=r["_item"]) for r in ok for v in r["violations"]]
    fa = [r for r in ok if r["kind"] == "faults"]
    co = [r for r in ok if r["kind"] == "coercion"]
    classes, errors, byv = {}, {}, {}
    for r in fa:
        for k, v in r["classes"].items():
            classes[k] = classes.get(k, 0) + v
        for k, v in r["errors"].items():
            errors[k] = errors.get(k, 0) + v
    for r in co:
        for k, v in r["by_variant"].items():
            byv[k] = byv.get(k, 0) + v
    want = ["p_id_missing", "p_id_duplicate", "p_id_nan", "pointer_to_missing", "pointer_to_missing_negative", "pointer_to_self", "hh_level_varies",
            "spouses_disagree", "required_column_dropped", "duplicate_column_name", "fractional_in_int_column", "fractional_in_int_column_small",
            "non_boolean_in_bool_column", "object_column"]
    inconclusive = [f"fault class {c} never injected" for c in want if not classes.get(c)]
    if sum(r["contract_calls"] for r in co) == 0:
        inconclusive.append("post-condition on convert_series_to_internal_type never evaluated")
    cov = dict(
        evaluations=sum(r["injected"] + r["pairs"] for r in fa) + sum(r["variants"] for r in co),
        distinct_nontrivial=sum(r["injected"] for r in fa) + sum(r["variants"] for r in co),
        rule="evaluation = one call with a single injected fault (class x row / column position), a pair of faults, or one "
             "lossless dtype variant of a column; every injected position is distinct (enumerated, not drawn)",
        faults_by_class=classes, faults_rejected=sum(r["rejected"] for r in fa), rejections_by_class_and_error=errors,
        fault_pairs=sum(r["pairs"] for r in fa),
        dtype_variants=byv, columns_converted_with_warning=sum(r["converted_columns"] for r in co),
        conversion_contract_evaluations=sum(r["contract_calls"] for r in co),
        samples=[s for r in fa[:2] for s in r["samples"][:2]] + [s for r in co[:1] for s in r["samples"][:2]],
    )
    return dict(coverage=cov, violations=viol, inconclusive=inconclusive,
                assumptions=["pointer faults are injected for the four documented foreign keys", "any exception counts as rejection (type and message recorded)"])

"""C10 - statutory rounding is applied exactly once, on the right grid, in the right direction.

Monitors:
 A. system traces (rounding on, all nodes, dates >= 2015): every node carrying a rounding key is
    compared with the unrounded scalar rule evaluated on the same trace's parents (shadow) and the
    spec read independently from the raw YAML; derived time-unit / aggregate nodes of a rounded
    node must equal factor x / sum of the rounded node (not rounded again); rounding=False must
    give the unrounded value.
 B. spec harness through the public API: for every rounded rule and every date at which its spec
    or the rule changes (1984-), the rule is replaced by an identity function carrying the same
    rounding key and fed hostile values (grid points, half-way points, +-1 ulp, negative, huge).
 C. fault injection: deleting the spec from a copy of the params must make the call raise.
"""
from __future__ import annotations

import datetime
import math
import re
import warnings

import numpy as np
import pandas as pd

PROPERTY = "C10"
LEVEL = "exploration"
PER_YEAR = {"y": 1.0, "m": 12.0, "w": 365.25 / 7, "d": 365.25}
UNIT_RE = re.compile(r"(?P<base>.*_)(?P<u>[ymwd])(?P<agg>_hh|_wthh|_fg|_bg|_eg|_ehe|_sn)?$")


def rounded_rules():
    from vf import env

    out = []
    for f in env.all_internal_functions().values():
        info = getattr(f, "__info__", None) or {}
        if "params_key_for_rounding" in info:
            out.append(f)
    return out


def plan(tier, seed):
    from vf import env
    from vf.core import rng_for
    from vf.refmodels import ParamsRef

    r = rng_for(seed, PROPERTY, 0)
    items = []
    ds = env.supported_change_dates()
    sysd = ds if tier == "thorough" else sorted({datetime.date(2015, 1, 1), datetime.date(2021, 1, 1),
                                                 datetime.date(2024, 1, 1), ds[int(r.integers(0, len(ds)))]})
    for d in sysd:
        for k in range(3 if tier == "quick" else 6):
            items.append(dict(kind="system", date=str(d), k=k, seed=seed))
    ref = ParamsRef(env.raw_yaml)
    lo, hi = datetime.date(1984, 1, 1), env.last_param_date()
    for f in rounded_rules():
        info = f.__info__
        g, name = info["params_key_for_rounding"], info.get("name_in_dag", f.__name__)
        spec = ref.raw(g).get("rounding", {}).get(name, {})
        cand = {k for k in spec if isinstance(k, datetime.date)}
        cand |= {info["start_date"], info["end_date"]}
        cand |= {c - datetime.timedelta(days=1) for c in cand if c.year > 1}
        cand |= {datetime.date(y, 7, 1) for y in (1990, 2005, 2016, 2022)}
        dates = sorted(c for c in cand if max(lo, info["start_date"]) <= c <= min(hi, info["end_date"]))
        for d in dates:
            items.append(dict(kind="spec", rule=f"{f.__module__.split('.')[-1]}.{f.__name__}", name=name,
                              group=g, date=str(d), seed=seed))
    # all rounded rules of a date in one call (cross-talk), at every date a rounding spec changes
    spec_dates = set()
    for g in env.INTERNAL_PARAMS_GROUPS:
        for fname, spec in ref.raw(g).get("rounding", {}).items():
            spec_dates |= {k for k in spec if isinstance(k, datetime.date)}
    spec_dates = sorted({max(x, lo) for x in spec_dates} | {datetime.date(2002, 7, 1), datetime.date(2003, 12, 31), datetime.date(2023, 7, 1)})
    for d in spec_dates:
        items.append(dict(kind="spec_all", date=str(d), seed=seed))
    return items


def run_item(item):
    return {"system": _run_system, "spec": _run_spec, "spec_all": _run_spec_all}[item["kind"]](item)


def _run_spec_all(item):
    """All rounded rules active at a date in ONE call, each replaced by an identity function with its own
    input column: every rule must follow its own spec (no cross-talk between the rounding of different rules)."""
    from vf import env
    from vf.core import rng_for
    from vf.refmodels import ParamsRef

    d = datetime.date.fromisoformat(item["date"])
    rng = rng_for(item["seed"], PROPERTY, d.toordinal(), 4242)
    params, functions = env.environment(d)
    ref = ParamsRef(env.raw_yaml)
    res = dict(kind="spec_all", rule="*", date=item["date"], violations=[], status="", values_checked=0, spec=None,
               fault_injections=0, rules_together=0)
    f2 = dict(functions)
    cols, specs = {}, {}
    names = []
    for nm, f in functions.items():
        info = getattr(f, "__info__", None) or {}
        if "params_key_for_rounding" not in info:
            continue
        spec = ref.rounding(info["params_key_for_rounding"], d).get(nm)
        if spec is None:
            continue
        names.append(nm)
    order = list(rng.permutation(len(names)))
    for j in order:  # dict order of the functions handed over is shuffled as well
        nm = names[j]
        f = functions[nm]
        spec = ref.rounding(f.__info__["params_key_for_rounding"], d)[nm]
        arg = f"vf_x_{j}"
        src = f"def _ident({arg}: float) -> float:\n    return {arg}\n"
        ns = {}
        exec(src, ns)  # noqa: S102
        ident = ns["_ident"]
        ident.__name__ = nm
        ident.__info__ = dict(f.__info__)
        f2.pop(nm)
        f2[nm] = ident
        cols[arg] = hostile_x(rng, spec["base"], 0)[:300]
        specs[nm] = (arg, spec)
    if len(specs) < 2:
        res["status"] = "fewer_than_two_rounded_rules"
        return res
    n = min(len(v) for v in cols.values())
    data = pd.DataFrame({a: v[:n] for a, v in cols.items()})
    data["p_id"] = np.arange(n)
    try:
        with warnings.catch_warnings():
            warnings.simplefilter("ignore")
            out = env.compute_taxes_and_transfers(data, params, f2, targets=sorted(specs), rounding=True)
    except Exception as e:  # noqa: BLE001
        res["violations"].append(dict(key=f"spec_all:exception:{type(e).__name__}", what=f"{item['date']}: all rounded rules together raise {type(e).__name__}: {str(e)[:200]}", date=item["date"]))
        return res
    res["rules_together"] = len(specs)
    # the caller's params are untouched and a second call with the same objects gives the same columns
    import copy as _copy

    snap = _copy.deepcopy(params)
    try:
        with warnings.catch_warnings():
            warnings.simplefilter("ignore")
            out2 = env.compute_taxes_and_transfers(data, params, f2, targets=sorted(specs), rounding=True)
        for nm in specs:
            if not np.array_equal(out[nm].to_numpy(), out2[nm].to_numpy()):
                res["violations"].append(dict(key=f"{nm}:second_call_differs", what=f"{nm} at {item['date']}: a second call with the same params object "
                                                                                   f"rounds differently ({out[nm].iloc[3]!r} then {out2[nm].iloc[3]!r})", date=item["date"]))
                break
    except Exception as e:  # noqa: BLE001
        res["violations"].append(dict(key="second_call:exception", what=f"{item['date']}: second call with the same params raises {type(e).__name__}: {str(e)[:120]}", date=item["date"]))
    bad = env.deep_equal(snap, params, "params")
    if bad:
        res["violations"].append(dict(key="rounding:mutates_params", what=f"{item['date']}: rounding modified the caller's params: {bad[:200]}", date=item["date"]))
    for nm, (arg, spec) in specs.items():
        base, direction, offset = spec["base"], spec["direction"], spec.get("to_add_after_rounding", 0)
        for xi, ri in zip(data[arg].to_numpy(), out[nm].to_numpy().astype(float)):
            res["values_checked"] += 1
            why = check_rounding(float(xi), float(ri), base, direction, offset)
            if why:
                res["violations"].append(dict(key=f"{nm}:rounding_with_other_rules",
                                              what=f"{nm} at {item['date']} computed together with {len(specs) - 1} other rounded rules "
                                                   f"(own spec base={base} {direction} offset={offset}): {why}", date=item["date"]))
                break
    res["status"] = "ok"
    res["sample"] = dict(date=item["date"], rules_together=sorted(specs)[:8], offsets={k: v[1].get("to_add_after_rounding", 0) for k, v in specs.items() if v[1].get("to_add_after_rounding")})
    return res


def check_rounding(x, r, base, direction, offset):
    """None if r is a correct rounding of x, else a description."""
    if not (math.isfinite(x) and math.isfinite(r)):
        return None if (x == r or (x != x and r != r)) else f"non-finite {x!r} -> {r!r}"
    rr = r - offset
    q = rr / base
    if abs(q - round(q)) > 1e-9 * max(1.0, abs(q)):
        return f"{r!r} minus offset {offset} is not on the grid of {base}"
    tau = 1e-9 * max(1.0, abs(x))
    if not abs(rr - x) < base * (1 + 1e-9) + tau:
        return f"rounded value {rr!r} is a full grid step ({base}) or more away from {x!r}"
    if direction == "up" and not rr >= x - tau:
        return f"direction up but {rr!r} < {x!r}"
    if direction == "down" and not rr <= x + tau:
        return f"direction down but {rr!r} > {x!r}"
    if direction == "nearest" and not abs(rr - x) <= base / 2 + tau:
        return f"direction nearest but |{rr!r} - {x!r}| > base/2"
    return None


def _run_system(item):
    from vf import env, popgen, shadow
    from vf.core import rng_for
    from vf.refmodels import ParamsRef

    d = datetime.date.fromisoformat(item["date"])
    rng = rng_for(item["seed"], PROPERTY, d.toordinal(), item["k"])
    params, functions = env.environment(d)
    ref = ParamsRef(env.raw_yaml)
    df = popgen.population(rng, d, n_hh=10, params=params)
    df = df.iloc[rng.permutation(len(df))].reset_index(drop=True)
    res = dict(kind="system", date=item["date"], pop=popgen.digest(df), violations=[], rounded_nodes=[],
               values_checked=0, derived_checked=0, off_grid_inputs=0, fault_injections=0)
    T, nodes, roots, dag, fn = env.trace(df, params, functions, rounding=True)
    U, _, _, _, _ = env.trace(df, params, functions, rounding=False)
    kinds = env.classify(fn)
    n = len(df)

    def viol(key, what, **kw):
        res["violations"].append(dict(key=key, what=what, date=item["date"], **kw))

    # a spec in the parameters of the run that names a rule of the run is honoured whether or not the rule is marked
    spec_groups = {t: g for g in params if isinstance(params[g], dict) and isinstance(params[g].get("rounding"), dict)
                   for t in params[g]["rounding"]}
    for t in nodes:
        f = functions.get(t)
        info = getattr(f, "__info__", None) or {}
        if kinds[t] != "rule" or not ("params_key_for_rounding" in info or t in spec_groups) or not shadow.is_scalar_rule(f):
            continue
        g = info.get("params_key_for_rounding") or spec_groups[t]
        if "params_key_for_rounding" not in info:
            res["unmarked_rules_with_spec"] = res.get("unmarked_rules_with_spec", 0) + 1
        spec = ref.rounding(g, d).get(t)
        if spec is None:
            viol(f"{t}:spec_missing", f"{t} is marked for rounding but the parameter file has no spec at {item['date']}")
            continue
        base, direction, offset = spec["base"], spec["direction"], spec.get("to_add_after_rounding", 0)
        res["rounded_nodes"].append(t)
        # rounded run: unrounded value from the same trace's parents
        cols = {a: shadow.pylist(T[a].to_numpy(), in_dag=a in nodes) for a in shadow.rule_args(f)
                if not (a.endswith("_params") and a[:-7] in params)}
        x, errs = shadow.scalar_column(f, params, cols, n)
        prod = T[t].to_numpy()
        for i in range(n):
            if errs[i] is not None:
                continue
            res["values_checked"] += 1
            xi = float(x[i])
            if abs(xi / base - round(xi / base)) > 1e-9:
                res["off_grid_inputs"] += 1
            why = check_rounding(xi, float(prod[i]), base, direction, offset)
            if why:
                viol(f"{t}:rounding", f"{t} at {item['date']} (spec base={base} {direction} offset={offset}): {why}", row=i)
                break
        # unrounded run equals the rule
        cols_u = {a: shadow.pylist(U[a].to_numpy(), in_dag=a in nodes) for a in shadow.rule_args(f)
                  if not (a.endswith("_params") and a[:-7] in params)}
        xu, _ = shadow.scalar_column(f, params, cols_u, n)
        j = shadow.values_equal(U[t].to_numpy(), xu)
        if j >= 0:
            viol(f"{t}:rounding_off", f"rounding=False: {t} row {j} is {U[t].iloc[j]!r}, the rule returns {xu[j]!r}")
        # derived nodes are not rounded again
        for s in dag.successors(t):
            if s not in kinds:
                continue
            if kinds[s] == "timeconv":
                m1, m2 = UNIT_RE.match(t), UNIT_RE.match(s)
                if not (m1 and m2 and m1.group("base") == m2.group("base")):
                    continue
                fac = PER_YEAR[m1.group("u")] / PER_YEAR[m2.group("u")]
                want = prod.astype(float) * fac
                got = T[s].to_numpy().astype(float)
                res["derived_checked"] += 1
                if not np.all(np.abs(got - want) <= 4 * np.finfo(float).eps * np.maximum(1.0, np.abs(want))):
                    i = int(np.argmax(np.abs(got - want)))
                    viol(f"{s}:derived_rounded_again", f"{s} = {got[i]!r} is not {fac} x the rounded {t} = {prod[i]!r}")
            elif kinds[s] == "agg_group":
                lvl = next((l for l in ("wthh", "hh", "fg", "bg", "eg", "ehe", "sn") if s.endswith("_" + l)), None)
                if lvl is None or f"{lvl}_id" not in T.columns or s != f"{t}_{lvl}":
                    continue
                want, _ = shadow.group_reference("sum", prod.tolist(), T[f"{lvl}_id"].tolist())
                got = T[s].to_numpy().astype(float)
                res["derived_checked"] += 1
                if not np.all(np.abs(got - np.array(want, dtype=float)) <= 1e-9 * np.maximum(1.0, np.abs(got))):
                    viol(f"{s}:derived_rounded_again", f"{s} is not the group sum of the rounded {t}")
    # C. fault injection: spec deleted -> loud
    import copy

    for t in res["rounded_nodes"][:3] if item["k"] == 0 else []:
        g = functions[t].__info__.get("params_key_for_rounding")
        if g is None:
            continue
        p2 = copy.deepcopy(params)
        del p2[g]["rounding"][t]
        res["fault_injections"] += 1
        try:
            env.simulate(df, p2, functions, [t], rounding=True)
            viol(f"{t}:missing_spec_silent", f"{t}: rounding spec deleted from the params but the call succeeds")
        except Exception:  # noqa: BLE001
            pass
    res["sample"] = dict(date=item["date"], population=popgen.describe(df), rounded_nodes=res["rounded_nodes"][:8])
    return res


def hostile_x(rng, base, offset):
    ks = [0, 1, 2, 7, 123, 99999, -1, -5, 10 ** 7]
    xs = []
    for k in ks:
        g = k * base
        xs += [g, np.nextafter(g, np.inf), np.nextafter(g, -np.inf), g + base / 2, np.nextafter(g + base / 2, np.inf),
               np.nextafter(g + base / 2, -np.inf), g + 0.3 * base, g + 0.7 * base, g + 0.01, g - 0.01]
        if abs(k) <= 123:  # points very close to (but not on) grid and half-way points
            for rel in (1e-3, 1e-4, 3e-5, 1e-5, 1e-6, 1e-7):
                xs += [g + rel * base, g - rel * base, g + base / 2 + rel * base, g + base / 2 - rel * base]
    xs += list(np.round(rng.uniform(-1000, 200000, 40), 2)) + list(rng.uniform(-10, 10, 20))
    return np.array(xs, dtype=float)


def _run_spec(item):
    from vf import env
    from vf.core import crc, rng_for
    from vf.refmodels import ParamsRef

    d = datetime.date.fromisoformat(item["date"])
    rng = rng_for(item["seed"], PROPERTY, d.toordinal(), crc(item["rule"]))
    params, functions = env.environment(d)
    ref = ParamsRef(env.raw_yaml)
    res = dict(kind="spec", rule=item["rule"], date=item["date"], violations=[], status="", values_checked=0,
               spec=None, fault_injections=0)
    name, g = item["name"], item["group"]
    f = functions.get(name)
    if f is None or f.__name__ != item["rule"].split(".")[1]:
        res["status"] = "not_active"
        return res
    spec = ref.rounding(g, d).get(name)
    res["spec"] = spec

    def ident(vf_x: float) -> float:
        return vf_x

    ident.__name__ = name
    ident.__info__ = dict(f.__info__)
    f2 = dict(functions)
    f2[name] = ident
    base = spec["base"] if spec else 1.0
    xs = hostile_x(rng, base, 0)
    data = pd.DataFrame({"vf_x": xs, "p_id": np.arange(len(xs))})

    def viol(key, what):
        res["violations"].append(dict(key=key, what=what, date=item["date"], rule=item["rule"]))

    try:
        with warnings.catch_warnings():
            warnings.simplefilter("ignore")
            out = env.compute_taxes_and_transfers(data, params, f2, targets=[name], rounding=True)
    except KeyError as e:
        if spec is None:
            res["status"] = "no_spec_at_date_and_loud"
            return res
        viol(f"{name}:spec_not_loaded", f"{item['date']}: the parameter file has a rounding spec for {name} but the call fails: {str(e)[:150]}")
        return res
    if spec is None:
        viol(f"{name}:missing_spec_silent", f"{item['date']}: {name} is marked for rounding, the file has no spec in force, yet the call succeeds")
        return res
    direction, offset = spec["direction"], spec.get("to_add_after_rounding", 0)
    r = out[name].to_numpy().astype(float)
    for xi, ri in zip(xs, r):
        res["values_checked"] += 1
        why = check_rounding(float(xi), float(ri), base, direction, offset)
        if why:
            viol(f"{name}:rounding", f"{name} at {item['date']} (file spec base={base} {direction} offset={offset}): {why}")
            break
    with warnings.catch_warnings():
        warnings.simplefilter("ignore")
        out0 = env.compute_taxes_and_transfers(data, params, f2, targets=[name], rounding=False)
    if not np.array_equal(out0[name].to_numpy().astype(float), xs):
        viol(f"{name}:rounding_off", f"rounding=False changes values of {name}")
    # spec deleted -> must raise
    import copy

    p2 = copy.deepcopy(params)
    del p2[g]["rounding"][name]
    res["fault_injections"] += 1
    try:
        with warnings.catch_warnings():
            warnings.simplefilter("ignore")
            env.compute_taxes_and_transfers(data, p2, f2, targets=[name], rounding=True)
        viol(f"{name}:missing_spec_silent", f"{name}: rounding spec deleted from the params but the call succeeds")
    except Exception:  # noqa: BLE001
        pass
    # rules computed from parameters alone (e.g. the marginal-employment limit): "the unrounded value" has no input to vary, so
    # the parameters are scaled by odd factors - with rounding disabled the real rule must then leave the grid; staying on
    # it for every factor means the rule rounds by itself (double rounding, and rounding=False is not unrounded)
    from vf import shadow

    args = shadow.rule_args(f)
    if args and all(a.endswith("_params") and a[:-7] in params for a in args):
        def scaled(o, fac, path=()):
            if isinstance(o, dict):
                return {k: (v if k == "rounding" else scaled(v, fac, (*path, k))) for k, v in o.items()}
            if isinstance(o, bool):
                return o
            if isinstance(o, (int, float)):
                return float(o) * fac
            if isinstance(o, np.ndarray) and o.dtype.kind in "fi":
                return o.astype(float) * fac
            return o

        on_grid, moved = 0, 0
        one = pd.DataFrame({"p_id": [0, 1], "wohnort_ost": [False, True]})
        for fac in (1.1371191135734072, 0.8713450292397661, 1.0731707317073171):
            p3 = copy.deepcopy(params)
            for a in args:
                p3[a[:-7]] = scaled(p3[a[:-7]], fac)
            try:
                with warnings.catch_warnings():
                    warnings.simplefilter("ignore")
                    v0 = env.compute_taxes_and_transfers(one, params, functions, targets=[name], rounding=False)[name].to_numpy().astype(float)
                    v1 = env.compute_taxes_and_transfers(one, p3, functions, targets=[name], rounding=False)[name].to_numpy().astype(float)
            except Exception:  # noqa: BLE001
                break
            res["param_only_probes"] = res.get("param_only_probes", 0) + 1
            if np.any(v1 != v0):
                moved += 1
                q = (v1 - offset * 0) / base
                if np.all(np.abs(q - np.round(q)) < 1e-9):
                    on_grid += 1
        if moved == 3 and on_grid == 3:
            viol(f"{name}:rounds_by_itself", f"{name} at {item['date']}: with rounding=False and its parameters scaled by three odd factors the rule still "
                                             f"returns multiples of {base} - it rounds inside the rule (double rounding; rounding=False is not unrounded)")
    res["status"] = "ok"
    res["sample"] = dict(rule=item["rule"], date=item["date"], spec={k: spec[k] for k in spec}, x=xs[:6].tolist(), rounded=r[:6].tolist())
    return res


def summarize(results, tier, seed):
    ok = [r for r in results if "_harness_error" not in r]
    viol = [dict(key=v["key"], what=v["what"], witness=v, item=r["_item"]) for r in ok for v in r["violations"]]
    spec = [r for r in ok if r["kind"] == "spec"]
    spec_all = [r for r in ok if r["kind"] == "spec_all"]
    sysr = [r for r in ok if r["kind"] == "system"]
    specs_seen = {(r["rule"], str(sorted((r["spec"] or {}).items()))) for r in spec if r["status"] == "ok"}
    inconclusive = []
    if sum(r["values_checked"] for r in sysr) == 0:
        inconclusive.append("no rounded node observed in system runs")
    if sum(r.get("off_grid_inputs", 0) for r in sysr) == 0:
        inconclusive.append("all unrounded values were already on the grid: direction not exercised in system runs")
    if len([r for r in spec if r["status"] == "ok"]) < 20:
        inconclusive.append("fewer than 20 (rule, date) spec cases exercised")
    cov = dict(
        evaluations=len([r for r in spec if r["status"] == "ok"]) + len(sysr),
        distinct_nontrivial=len({(r["rule"], r["date"]) for r in spec if r["status"] == "ok"}) + len({(r["date"], r["pop"]) for r in sysr}),
        rule="evaluation = one (rounded rule, date) identity-harness run on 150 hostile values, or one pair of system "
             "traces (rounding on/off); distinct by (rule, date) resp. (date, population)",
        rounded_rules=len({r["rule"] for r in spec}), distinct_specs_exercised=len(specs_seen),
        all_rules_together_runs=[(r["date"], r["rules_together"]) for r in spec_all if r["status"] == "ok"],
        spec_cases_by_status={s: sum(1 for r in spec if r["status"] == s) for s in {r["status"] for r in spec}},
        values_checked=sum(r["values_checked"] for r in ok),
        system_values_off_grid_before_rounding=sum(r.get("off_grid_inputs", 0) for r in sysr),
        derived_nodes_checked=sum(r.get("derived_checked", 0) for r in sysr),
        parameter_only_rules_probed_with_scaled_parameters=sum(r.get("param_only_probes", 0) for r in spec),
        unmarked_rules_with_a_spec_checked=sum(r.get("unmarked_rules_with_spec", 0) for r in sysr),
        rounded_nodes_in_system_runs=sorted({t for r in sysr for t in r["rounded_nodes"]}),
        missing_spec_fault_injections=sum(r["fault_injections"] for r in ok),
        samples=[r["sample"] for r in spec if r.get("sample")][:3] + [r["sample"] for r in sysr[:1]],
    )
    return dict(coverage=cov, violations=viol, inconclusive=inconclusive,
                assumptions=["tolerances: grid 1e-9 relative, error < base*(1+1e-9), direction up to 1e-9*max(1,|x|) (float division in the wrapper)",
                             "tie-breaking at exact half-way points is not prescribed"])

"""C19 - employee social-insurance contributions follow the statutory shape in the gross wage.

Monitor: trace-shape invariants along a wage sweep.  For every (date, east/west, children yes/no,
age below/above the childless-surcharge age) a population of single employees that differ only
in the wage - a dense grid from 0 to 1.25 x the pension ceiling plus every statutory boundary read
from the parameters (marginal-employment limit, top of the transition zone, both ceilings) +- 1
cent - is simulated; along the sorted wage each of the four employee contributions must be
non-negative, non-decreasing, zero under marginal employment, constant above its own ceiling,
without a jump at the top of the transition zone, and inside the zone employee + employer shares
must equal the total-contribution node."""
from __future__ import annotations

import datetime

import numpy as np

PROPERTY = "C19"
LEVEL = "exploration"
BRANCHES = {
    "ges_rentenv": "ges_rentenv", "arbeitsl_v": "ges_rentenv",  # branch -> whose ceiling applies
    "ges_krankenv": "ges_krankenv", "ges_pflegev": "ges_krankenv",
}


def plan(tier, seed):
    from vf import env
    from vf.core import rng_for

    r = rng_for(seed, PROPERTY, 0)
    ds = env.supported_change_dates()
    one = datetime.timedelta(days=1)
    if tier == "thorough":
        dates = sorted(set(ds) | {d - one for d in ds if d - one >= datetime.date(2015, 1, 1)})
    else:
        dates = sorted({datetime.date(2015, 1, 1), datetime.date(2019, 6, 30), datetime.date(2019, 7, 1), datetime.date(2022, 9, 30),
                        datetime.date(2022, 10, 1), datetime.date(2023, 7, 1), datetime.date(2024, 1, 1), ds[-1], ds[int(r.integers(0, len(ds)))]})
    items = []
    for d in dates:
        for combo in range(8):
            if tier == "quick" and combo not in (0, 3, 5, 6):
                continue
            items.append(dict(date=str(d), ost=bool(combo & 1), kinder=bool(combo & 2), jung=bool(combo & 4), seed=seed, tier=tier))
        # the care-insurance discounts depend on the number of children: one sweep per count
        for nk in ((1, 2, 4, 5, 6, 10) if tier == "thorough" else (2, 5, 9)):
            items.append(dict(date=str(d), ost=False, kinder=True, jung=False, n_children=nk, seed=seed, tier=tier))
    return items


def run_item(item):
    from vf import env, popgen
    from vf.core import rng_for

    d = datetime.date.fromisoformat(item["date"])
    rng = rng_for(item["seed"], PROPERTY, d.toordinal(), int(item["ost"]) + 2 * int(item["kinder"]) + 4 * int(item["jung"]))
    params, functions = env.environment(d)
    res = dict(date=item["date"], combo=(item["ost"], item["kinder"], item["jung"]), violations=[], persons=0,
               boundaries={}, conditions={}, zone_persons=0, marginal_persons=0, above_ceiling_persons=0)

    def viol(key, what):
        res["violations"].append(dict(key=key, what=what, date=item["date"], combo=res["combo"]))

    base = popgen.population(rng, d, n_hh=1, params=params, archetypes=["single"])
    for c in base.columns:
        if base[c].dtype.kind == "f":
            base[c] = 0.0
        elif base[c].dtype.kind == "b":
            base[c] = False
    alter = 21 if item["jung"] else 35
    base["alter"] = alter
    base["geburtsjahr"] = d.year - alter
    base["jahr_renteneintr"] = d.year - alter + 67
    base["wohnort_ost"] = item["ost"]
    base["ges_pflegev_hat_kinder"] = item["kinder"]
    base["arbeitsstunden_w"] = 38.0
    base["bruttokaltmiete_m_hh"] = 500.0
    base["wohnfläche_hh"] = 50.0
    base["steuerklasse"] = 1
    base["behinderungsgrad"] = 0
    sv = params["sozialv_beitr"]
    region = "ost" if item["ost"] else "west"
    ceil = {k: float(sv["beitr_bemess_grenze_m"][k][region]) for k in ("ges_rentenv", "ges_krankenv")}
    # statutory boundaries of this run are taken from the run itself (nodes), the grid from the ceilings
    top = 1.25 * max(ceil.values())
    n_grid = 1500 if item["tier"] == "quick" else 3000
    wages = list(np.round(np.linspace(0, top, n_grid), 2))
    probe = popgen.replicate_with_wages(base, [1000.0])
    pr = env.simulate(probe, params, functions, ["minijob_grenze", "in_gleitzone"])
    mini = float(pr["minijob_grenze"].iloc[0])
    # the statutory limit of marginal employment, re-derived from the parameters of this date (value or minimum wage x
    # factor / divisor, then the rounding the parameters prescribe for it) - independent of the computed node
    from fractions import Fraction

    from vf.refmodels import round_ref

    raw_mini = (sv.get("geringfügige_eink_grenzen_m") or {}).get("minijob")
    if isinstance(raw_mini, dict):
        raw_mini = raw_mini[region]
    if raw_mini is None and sv.get("geringf_eink_faktor") is not None:
        raw_mini = sv["mindestlohn"] * sv["geringf_eink_faktor"] / sv["geringf_eink_divisor"]
    spec = (sv.get("rounding") or {}).get("minijob_grenze")
    mini_ref = None
    if raw_mini is not None:
        mini_ref = float(round_ref(float(raw_mini), spec["base"], spec["direction"]) + Fraction(spec.get("to_add_after_rounding", 0))) if spec else float(raw_mini)
        if mini != mini_ref:
            viol("minijob_grenze:differs_from_parameters", f"the limit of marginal employment is {mini!r} in the run but {mini_ref!r} by the parameters of "
                                                           f"{item['date']} (raw value {raw_mini!r}, rounding {spec})")
    midi = sv["geringfügige_eink_grenzen_m"].get("midijob") if isinstance(sv.get("geringfügige_eink_grenzen_m"), dict) else None
    bounds = dict(minijob=mini, **{f"ceiling_{k}": v for k, v in ceil.items()})
    if mini_ref is not None:
        bounds["minijob_by_parameters"] = mini_ref
    if midi is not None:
        bounds["midijob"] = float(midi)
    for b in bounds.values():
        wages += [round(b + c, 2) for c in (-1, -0.02, -0.01, 0, 0.01, 0.02, 1)]
    wages = np.array(sorted({w for w in wages if w >= 0}))
    res["boundaries"] = bounds
    df = popgen.replicate_with_wages(base, wages)
    if item.get("n_children") is not None:
        # supplied as data column (it is a computed column where it exists; C05 covers the equivalence)
        nodes_now = set(env.graph(functions, list(df.columns), ["ges_pflegev_beitr_arbeitnehmer_m"])[0])
        if "ges_pflegev_anz_kinder_bis_24" not in nodes_now:
            res["skipped"] = "number of children does not enter the contribution at this date"
            return res
        df["ges_pflegev_anz_kinder_bis_24"] = int(item["n_children"])
        res["combo"] = (*res["combo"], int(item["n_children"]))
    targets = ["geringfügig_beschäftigt", "in_gleitzone", "regulär_beschäftigt"]
    for br in BRANCHES:
        targets += [f"{br}_beitr_arbeitnehmer_m", f"{br}_beitr_arbeitgeber_m", f"_{br}_beitr_midijob_sum_arbeitnehmer_arbeitgeber_m"]
    try:
        out = env.simulate(df, params, functions, targets)
    except Exception as e:  # noqa: BLE001
        viol(f"exception:{type(e).__name__}", f"wage sweep raises {type(e).__name__}: {str(e)[:200]}")
        return res
    w = df["bruttolohn_m"].to_numpy()
    order = np.argsort(w, kind="stable")
    w = w[order]
    res["persons"] = len(w)
    marg = out["geringfügig_beschäftigt"].to_numpy()[order]
    zone = out["in_gleitzone"].to_numpy()[order]
    res["zone_persons"], res["marginal_persons"] = int(zone.sum()), int(marg.sum())

    def ok(name):
        res["conditions"][name] = res["conditions"].get(name, 0) + 1

    for br, cb in BRANCHES.items():
        an = out[f"{br}_beitr_arbeitnehmer_m"].to_numpy().astype(float)[order]
        ag = out[f"{br}_beitr_arbeitgeber_m"].to_numpy().astype(float)[order]
        tot = out[f"_{br}_beitr_midijob_sum_arbeitnehmer_arbeitgeber_m"].to_numpy().astype(float)[order]
        tag = f"{br} ({region}, children={item['kinder']}, age {alter}, {item['date']})"
        if (an < 0).any():
            i = int(np.argmin(an))
            viol(f"{br}:negative", f"{tag}: employee contribution {an[i]!r} at wage {w[i]!r}")
        ok("non_negative")
        dd = np.diff(an)
        if (dd < -1e-9).any():
            i = int(np.argmin(dd))
            viol(f"{br}:decreasing", f"{tag}: employee contribution falls from {an[i]!r} at wage {w[i]!r} to {an[i + 1]!r} at wage {w[i + 1]!r} "
                                     f"(marginal: {bool(marg[i])}->{bool(marg[i + 1])}, transition zone: {bool(zone[i])}->{bool(zone[i + 1])})")
        ok("non_decreasing")
        if (an[marg] != 0).any():
            i = int(np.argmax((an != 0) & marg))
            viol(f"{br}:nonzero_marginal", f"{tag}: employee contribution {an[i]!r} under marginal employment (wage {w[i]!r})")
        ok("zero_under_marginal_employment")
        if mini_ref is not None:
            marg_ref = w <= mini_ref
            if (an[marg_ref] != 0).any():
                i = int(np.argmax((an != 0) & marg_ref))
                viol(f"{br}:nonzero_below_statutory_limit", f"{tag}: employee contribution {an[i]!r} at wage {w[i]!r}, not above the statutory limit "
                                                            f"of marginal employment {mini_ref!r}")
            ok("zero_up_to_statutory_limit")
        c = ceil[cb]
        above = w >= c
        res["above_ceiling_persons"] += int(above.sum())
        if above.sum() >= 2:
            ref = an[above][0]
            if np.abs(an[above] - ref).max() > 1e-9 * max(1.0, abs(ref)):
                i = int(np.argmax(np.abs(an - ref) * above))
                viol(f"{br}:not_constant_above_ceiling", f"{tag}: contribution {an[i]!r} at wage {w[i]!r} differs from {ref!r} at the ceiling {c}")
            # and just below the ceiling it is not larger than at the ceiling
            ok("constant_above_ceiling")
        # no jump at the top of the transition zone
        if zone.any() and (~zone & ~marg).any():
            i = int(np.max(np.where(zone)[0]))
            if i + 1 < len(w) and not zone[i + 1]:
                step = w[i + 1] - w[i]
                jump = abs(an[i + 1] - an[i])
                if jump > 0.5 * step + 1e-6:  # no contribution rate is anywhere near 50 %
                    viol(f"{br}:jump_at_zone_top", f"{tag}: employee contribution jumps from {an[i]!r} at wage {w[i]!r} (transition zone) "
                                                   f"to {an[i + 1]!r} at wage {w[i + 1]!r} (regular)")
                ok("no_jump_at_zone_top")
        # shares add up inside the zone
        if zone.any():
            err = np.abs(an[zone] + ag[zone] - tot[zone])
            if err.max() > 1e-9 * np.maximum(1.0, np.abs(tot[zone])).max():
                i = int(np.argmax(err))
                viol(f"{br}:shares_do_not_add_up", f"{tag}: in the transition zone at wage {w[zone][i]!r}: employee {an[zone][i]!r} + employer "
                                                   f"{ag[zone][i]!r} != total {tot[zone][i]!r}")
            ok("shares_add_up_in_zone")
    res["sample"] = dict(date=item["date"], region=region, children=item["kinder"], age=alter, boundaries=bounds,
                         wages=[float(x) for x in w[:: max(1, len(w) // 8)]],
                         rentenv=[float(x) for x in out["ges_rentenv_beitr_arbeitnehmer_m"].to_numpy()[order][:: max(1, len(w) // 8)]])
    return res


def summarize(results, tier, seed):
    ok = [r for r in results if "_harness_error" not in r]
    viol = [dict(key=v["key"], what=v["what"], witness=v, item=r["_item"]) for r in ok for v in r["violations"]]
    cond = {}
    for r in ok:
        for k, v in r["conditions"].items():
            cond[k] = cond.get(k, 0) + v
    inconclusive = []
    for need in ("non_decreasing", "zero_under_marginal_employment", "constant_above_ceiling", "no_jump_at_zone_top", "shares_add_up_in_zone"):
        if cond.get(need, 0) == 0:
            inconclusive.append(f"condition {need} was never evaluated")
    if sum(r["zone_persons"] for r in ok) == 0:
        inconclusive.append("no wage inside the transition zone")
    cov = dict(
        evaluations=sum(r["persons"] for r in ok),
        distinct_nontrivial=len({(r["date"], tuple(r["combo"])) for r in ok if r["persons"]}),
        sweeps_with_child_count=len([r for r in ok if len(r["combo"]) == 4]),
        rule="evaluation = one simulated employee of a wage sweep; distinct non-trivial = (date, east/west, children, age class) "
             "sweeps containing marginal, transition-zone, regular and above-ceiling wages",
        sweeps=len(ok), condition_evaluations=cond,
        persons_in_transition_zone=sum(r["zone_persons"] for r in ok), persons_marginally_employed=sum(r["marginal_persons"] for r in ok),
        persons_above_ceiling=sum(r["above_ceiling_persons"] for r in ok),
        boundaries_by_date={r["date"]: r["boundaries"] for r in ok if not r["combo"][0] and r["boundaries"]},
        dates=sorted({r["date"] for r in ok}),
        samples=[r["sample"] for r in ok[:2] if "sample" in r],
    )
    return dict(coverage=cov, violations=viol, inconclusive=inconclusive,
                assumptions=["single employees, no other income, not self-employed, publicly insured",
                             "a jump at the top of the transition zone is a step larger than half the wage step"])

"""C12 - derived units partition persons as their definitions prescribe.

Monitor: reference-model comparison *as partitions*.  The six grouping functions are executed
 (a) directly, on every pointer structure of a small scope (exhaustive up to 3 persons in the quick
     tier / 4 persons in the thorough tier, sampled one size above) under **all row orders**, and
 (b) through the public API (ids requested as targets) on a sample of the small structures and on
     random populations of 6-60 persons,
and compared with vf.refmodels.units_ref, an order-free set-based construction from the unit
definitions; plus nesting BG within FG within household, one part-household per BG, and no id
shared between households."""
from __future__ import annotations

import datetime
import itertools
import warnings

import numpy as np
import pandas as pd

PROPERTY = "C12"
LEVEL = "exploration"
AGES = [10, 20, 40]


def set_partitions(n):
    """restricted growth strings"""
    def rec(i, cur, mx):
        if i == n:
            yield tuple(cur)
            return
        for v in range(mx + 2):
            cur.append(v)
            yield from rec(i + 1, cur, max(mx, v))
            cur.pop()
    yield from rec(0, [], -1)


def matchings(idx, hh):
    """all sets of disjoint pairs within the same household"""
    idx = list(idx)
    if not idx:
        yield ()
        return
    a, rest = idx[0], idx[1:]
    yield from matchings(rest, hh)
    for k, b in enumerate(rest):
        if hh[a] == hh[b]:
            for m in matchings(rest[:k] + rest[k + 1:], hh):
                yield ((a, b), *m)


def structures(n):
    """All pointer structures for n persons (not reduced modulo relabelling)."""
    for ages in itertools.product(range(3), repeat=n):
        if list(ages) != sorted(ages, reverse=True):
            continue  # persons are exchangeable: list them by non-increasing age class
        for hh in set_partitions(n):
            adults = [i for i in range(n) if ages[i] >= 1]
            for match in matchings(adults, hh):
                partner = [-1] * n
                for a, b in match:
                    partner[a], partner[b] = b, a
                # parents: strictly older age class
                par_opts = []
                for i in range(n):
                    older = [j for j in range(n) if ages[j] > ages[i]]
                    opts = [(-1, -1)]
                    for j in older:
                        opts.append((j, -1) if (i + j) % 2 else (-1, j))
                    for j, k in itertools.combinations(older, 2):
                        opts.append((j, k) if (i + j + k) % 2 else (k, j))
                    par_opts.append(opts)
                for parents in itertools.product(*par_opts):
                    for flags in itertools.product(range(3), repeat=len(match)):
                        # per couple: 0 unmarried, 1 married separately assessed, 2 married jointly assessed
                        yield dict(ages=ages, hh=hh, match=match, partner=partner, parents=parents, flags=flags)


def materialise(st, eig_mask, young=20):
    n = len(st["ages"])
    p_id = [11 + 7 * ((i * 3) % n) + i for i in range(n)]  # unsorted, sparse labels
    lab = lambda j: -1 if j < 0 else p_id[j]  # noqa: E731
    ehe = [-1] * n
    gv = [False] * n
    for (a, b), fl in zip(st["match"], st["flags"]):
        if fl >= 1:
            ehe[a], ehe[b] = p_id[b], p_id[a]
        if fl == 2:
            gv[a] = gv[b] = True
    return dict(
        p_id=p_id, hh_id=[5 + h for h in st["hh"]], alter=[(young if a == 1 else AGES[a]) for a in st["ages"]],
        p_id_ehepartner=ehe, p_id_einstandspartner=[lab(j) for j in st["partner"]],
        p_id_elternteil_1=[lab(p[0]) for p in st["parents"]], p_id_elternteil_2=[lab(p[1]) for p in st["parents"]],
        gemeinsam_veranlagt=gv, eigenbedarf_gedeckt=[bool(eig_mask >> i & 1) for i in range(n)],
    )


def plan(tier, seed):
    items = []
    if tier == "quick":
        scopes = [(1, 1.0), (2, 1.0), (3, 1.0), (4, 0.04)]
        shards = 16
    else:
        scopes = [(1, 1.0), (2, 1.0), (3, 1.0), (4, 1.0), (5, 0.02)]
        shards = 64
    for n, frac in scopes:
        k = 1 if n <= 2 else shards
        for s in range(k):
            items.append(dict(kind="scope", n=n, frac=frac, shard=s, shards=k, seed=seed))
    for k in range(16 if tier == "quick" else 96):
        items.append(dict(kind="random", k=k, seed=seed))
    return items


def _partition_equal(a, b):
    from vf.tracecmp import same_partition

    return same_partition(np.asarray(a, dtype=object), np.asarray([str(x) for x in b], dtype=object))


def _check_structure(cols, order, viol_cb, counters, via_api=None):
    """Run the real grouping functions on the structure in the given row order and compare."""
    from _gettsim import groupings as G
    from vf.refmodels import units_ref

    arr = {k: np.asarray([v[i] for i in order]) for k, v in cols.items()}
    ref, invalid = units_ref(*(arr[k].tolist() for k in (
        "p_id", "hh_id", "alter", "p_id_ehepartner", "p_id_einstandspartner", "p_id_elternteil_1",
        "p_id_elternteil_2", "gemeinsam_veranlagt", "eigenbedarf_gedeckt")))
    if invalid:
        counters["excluded_no_unique_partition"] += 1
        return False
    if via_api is None:
        got = {}
        groupers = G.create_groupings()

        def call(name, **extra):
            # arguments by name (robust against re-ordered / additional arguments); parameter groups from the
            # environment of DIRECT_DATE
            import inspect

            f = groupers[name]
            kw = {}
            for a in inspect.signature(f).parameters:
                if a in extra:
                    kw[a] = extra[a]
                elif a in arr:
                    kw[a] = arr[a]
                elif a.endswith("_params"):
                    kw[a] = _direct_params()[a[:-7]]
                else:
                    raise TypeError(f"grouping function {name} needs the unknown argument {a}")
            return f(**kw)

        got["fg"] = call("fg_id")
        got["bg"] = call("bg_id", fg_id=got["fg"])
        got["eg"] = call("eg_id")
        got["ehe"] = call("ehe_id")
        got["sn"] = call("sn_id")
        # priority flags are constant per Bedarfsgemeinschaft
        bgs = sorted(set(ref["bg"]), key=str)
        combo = {b: ((i + len(order) + int(arr["alter"][0])) % 4) for i, b in enumerate(bgs)}  # all four (flag1, flag2) combinations occur
        f1 = np.array([combo[b] in (1, 3) for b in ref["bg"]])
        f2 = np.array([combo[b] in (2, 3) for b in ref["bg"]])
        got["wthh"] = call("wthh_id", wohngeld_vorrang_bg=f1, wohngeld_kinderzuschl_vorrang_bg=f2)
        ref_wthh = [(h, bool(a or b_)) for h, a, b_ in zip(arr["hh_id"].tolist(), f1.tolist(), f2.tolist())]
    else:
        got, ref_wthh = via_api(arr)
        if got is None:
            return True
    counters["function_calls"] += 6
    hh = arr["hh_id"].tolist()
    for lvl in ("fg", "bg", "eg", "ehe", "sn"):
        if not _partition_equal(got[lvl], ref[lvl]):
            viol_cb(f"{lvl}_id:partition",
                    f"{lvl}_id={list(map(int, got[lvl]))} does not induce the partition of the definition "
                    f"{[str(x) for x in ref[lvl]]} for rows {dict((k, [x.item() if hasattr(x, 'item') else x for x in v]) for k, v in arr.items())}")
    if not _partition_equal(got["wthh"], ref_wthh):
        viol_cb("wthh_id:partition", f"wthh_id={list(map(int, got['wthh']))} vs households x priority flag {ref_wthh}")
    # nesting and no collisions across households
    for inner, outer in (("bg", "fg"), ("fg", "hh"), ("bg", "wthh")):
        o = hh if outer == "hh" else list(map(int, got[outer]))
        m = {}
        for a, b in zip(map(int, got[inner]), o):
            if m.setdefault(a, b) != b:
                viol_cb(f"nesting:{inner}_in_{outer}", f"{inner}_id {a} spans two {outer} units; rows {arr}")
                break
    for lvl in ("fg", "bg", "wthh", "eg", "ehe", "sn"):
        m = {}
        for a, b in zip(map(int, got[lvl]), hh):
            if lvl in ("ehe", "sn", "eg"):
                continue
            if m.setdefault(a, b) != b:
                viol_cb(f"collision:{lvl}_id", f"{lvl}_id {a} is shared by households {m[a]} and {b}")
                break
    return True


def worker_init():
    pass


_DP = {}


def _direct_params():
    if "p" not in _DP:
        from vf import env

        _DP["p"] = env.environment(datetime.date(2023, 1, 1))[0]
    return _DP["p"]


def _api_runner(params, functions, year=2023, full=True):
    from _gettsim.config import TYPES_INPUT_VARIABLES
    from vf import env

    def run(arr):
        n = len(arr["p_id"])
        data = {}
        for c, t in TYPES_INPUT_VARIABLES.items():
            data[c] = np.zeros(n, dtype={bool: bool, int: np.int64, float: float}[t])
        for k, v in arr.items():
            data[k] = v
        data["kind"] = arr["alter"] < 18
        data["geburtsjahr"] = year - arr["alter"]
        data["geburtsmonat"] = np.ones(n, dtype=np.int64)
        data["geburtstag"] = np.ones(n, dtype=np.int64)
        data["jahr_renteneintr"] = data["geburtsjahr"] + 67
        data["monat_renteneintr"] = np.ones(n, dtype=np.int64)
        data["p_id_kindergeld_empf"] = np.full(n, -1)
        data["p_id_erziehgeld_empf"] = np.full(n, -1)
        data["p_id_betreuungsk_träger"] = np.full(n, -1)
        data["mietstufe"] = np.full(n, 3)
        data["steuerklasse"] = np.ones(n, dtype=np.int64)
        data["bruttolohn_m"] = np.where(arr["alter"] >= 18, 1500.0 + 400 * np.arange(n), 0.0)
        data["bruttokaltmiete_m_hh"] = 400.0 + 10.0 * arr["hh_id"]
        data["wohnfläche_hh"] = np.full(n, 60.0)
        df = pd.DataFrame(data)
        if not full:  # historical dates: the ids that only need the pointer structure
            out = env.simulate(df, params, functions, ["fg_id", "bg_id", "eg_id", "ehe_id", "sn_id"])
            got = {l: out[f"{l}_id"].to_numpy() for l in ("fg", "bg", "eg", "ehe", "sn")}
            got["wthh"] = arr["hh_id"] * 100
            return got, [(h, False) for h in arr["hh_id"].tolist()]
        targets = ["fg_id", "bg_id", "eg_id", "ehe_id", "sn_id", "wthh_id", "wohngeld_vorrang_bg", "wohngeld_kinderzuschl_vorrang_bg"]
        out = env.simulate(df, params, functions, targets)
        got = {l: out[f"{l}_id"].to_numpy() for l in ("fg", "bg", "eg", "ehe", "sn", "wthh")}
        flag = (out["wohngeld_vorrang_bg"].to_numpy() | out["wohngeld_kinderzuschl_vorrang_bg"].to_numpy())
        return got, [(h, bool(f)) for h, f in zip(arr["hh_id"].tolist(), flag.tolist())]

    return run


def run_item(item):
    from vf import env, popgen
    from vf.core import rng_for

    counters = dict(structures=0, orders=0, function_calls=0, excluded_no_unique_partition=0, api_runs=0)
    res = dict(kind=item["kind"], violations=[], samples=[], **counters)

    def viol(key, what):
        if len(res["violations"]) < 50:
            res["violations"].append(dict(key=key, what=what[:1500]))

    if item["kind"] == "scope":
        rng = rng_for(item["seed"], PROPERTY, item["n"], item["shard"])
        n = item["n"]
        api = None
        perms = list(itertools.permutations(range(n)))
        for si, st in enumerate(structures(n)):
            if si % item["shards"] != item["shard"]:
                continue
            if item["frac"] < 1.0 and rng.random() > item["frac"]:
                continue
            # eigenbedarf flags only on FG-eligible children: enumerate subsets of age-<25 persons with parents
            cand = [i for i in range(n) if st["ages"][i] <= 1 and (st["parents"][i][0] >= 0 or st["parents"][i][1] >= 0)]
            masks = [0]
            for r_ in range(1, len(cand) + 1):
                for sub in itertools.combinations(cand, r_):
                    masks.append(sum(1 << i for i in sub))
            for mask in masks:
                cols = materialise(st, mask, young=[20, 24, 25, 26][si % 4])
                valid_any = False
                for order in perms:
                    ok = _check_structure(cols, order, viol, counters)
                    if not ok:
                        break
                    valid_any = True
                    counters["orders"] += 1
                if valid_any:
                    counters["structures"] += 1
                    if len(res["samples"]) < 1 and rng.random() < 0.02:
                        res["samples"].append({k: [x if not hasattr(x, "item") else x.item() for x in v] for k, v in cols.items()})
                    if rng.random() < (0.03 if n >= 3 else 0.3):
                        if api is None:
                            api = {}
                            for dd, full in ((datetime.date(2023, 1, 1), True), (datetime.date(2006, 1, 1), False), (datetime.date(1999, 7, 1), False)):
                                p, f = env.environment(dd)
                                api[dd] = _api_runner(p, f, dd.year, full)
                        api_dates = sorted(api)
                        the_api = api[api_dates[counters["api_runs"] % len(api_dates)]]
                        order = perms[int(rng.integers(0, len(perms)))]
                        try:
                            with warnings.catch_warnings():
                                warnings.simplefilter("ignore")
                                _check_structure(cols, order, viol, counters, via_api=the_api)
                            counters["api_runs"] += 1
                        except Exception as e:  # noqa: BLE001
                            viol(f"api:exception:{type(e).__name__}", f"ids requested through the API raise {type(e).__name__}: {str(e)[:200]} for {cols}")
    else:
        rng = rng_for(item["seed"], PROPERTY, 99, item["k"])
        d = [datetime.date(2023, 1, 1), datetime.date(2016, 1, 1), datetime.date(2025, 1, 1)][item["k"] % 3]
        params, functions = env.environment(d)
        if item["k"] % 8 == 0:
            df = popgen.population(rng, d, n_hh=400, params=params, archetypes=["selfsufficient_kids", "family_m", "single_parent", "big_family"])
            young = (df["alter"] < 25) & (df["alter"] >= 10) & (df["p_id_elternteil_1"] >= 0) & (df["p_id_einstandspartner"] < 0)
            df["eigenbedarf_gedeckt"] = df["eigenbedarf_gedeckt"] | (young & (rng.random(len(df)) < 0.6))
        else:
            df = popgen.population(rng, d, n_hh=int(rng.integers(3, 20)), params=params)
        pm = popgen.random_injective(rng, df["p_id"].tolist(), 9000)
        hm = popgen.random_injective(rng, sorted(df["hh_id"].unique().tolist()), 9000)
        df = popgen.relabel(df, pm, hm)
        for rep in range(3):
            dfp = df.iloc[rng.permutation(len(df))].reset_index(drop=True)
            targets = ["fg_id", "bg_id", "eg_id", "ehe_id", "sn_id", "wthh_id", "wohngeld_vorrang_bg", "wohngeld_kinderzuschl_vorrang_bg"]
            out = env.simulate(dfp, params, functions, targets)
            cols = {k: dfp[k].tolist() for k in ("p_id", "hh_id", "alter", "p_id_ehepartner", "p_id_einstandspartner",
                                                 "p_id_elternteil_1", "p_id_elternteil_2", "gemeinsam_veranlagt", "eigenbedarf_gedeckt")}

            def api(arr, out=out):
                got = {l: out[f"{l}_id"].to_numpy() for l in ("fg", "bg", "eg", "ehe", "sn", "wthh")}
                flag = out["wohngeld_vorrang_bg"].to_numpy() | out["wohngeld_kinderzuschl_vorrang_bg"].to_numpy()
                return got, [(h, bool(f)) for h, f in zip(arr["hh_id"].tolist(), flag.tolist())]

            if _check_structure(cols, list(range(len(dfp))), viol, counters, via_api=api):
                counters["structures"] += 1 if rep == 0 else 0
                counters["orders"] += 1
                counters["api_runs"] += 1
        res["samples"].append(popgen.describe(df))
    res.update(counters)
    return res


def summarize(results, tier, seed):
    ok = [r for r in results if "_harness_error" not in r]
    viol = [dict(key=v["key"], what=v["what"], witness=v, item=r["_item"]) for r in ok for v in r["violations"]]
    by_n = {}
    for r in ok:
        if r["kind"] == "scope":
            n = r["_item"]["n"]
            by_n.setdefault(n, dict(structures=0, orders=0, exhaustive=r["_item"]["frac"] >= 1.0))
            by_n[n]["structures"] += r["structures"]
            by_n[n]["orders"] += r["orders"]
    inconclusive = []
    if sum(r["function_calls"] for r in ok) < 1000:
        inconclusive.append("fewer than 1000 grouping-function calls observed")
    if sum(r["api_runs"] for r in ok) == 0:
        inconclusive.append("no run through the public API")
    cov = dict(
        evaluations=sum(r["orders"] for r in ok),
        distinct_nontrivial=sum(r["structures"] for r in ok),
        rule="evaluation = one (pointer structure, row order) on which all six grouping functions were executed and "
             "compared as partitions with the set-based reference; distinct non-trivial = distinct valid structures "
             "(age classes x households x partner matching x marital/assessment flags x parent pointers x "
             "self-sufficiency flags); structures for which the definitions give no unique partition are excluded and counted",
        exhaustive=False,
        small_scope=by_n,
        grouping_function_calls=sum(r["function_calls"] for r in ok),
        excluded_no_unique_partition=sum(r["excluded_no_unique_partition"] for r in ok),
        runs_through_public_api=sum(r["api_runs"] for r in ok),
        random_populations=len([r for r in ok if r["kind"] == "random"]),
        samples=[s for r in ok for s in r["samples"][:1]][:3],
    )
    return dict(coverage=cov, violations=viol, inconclusive=inconclusive,
                assumptions=["persons are listed by non-increasing age class in the canonical structure; all row orders are then applied",
                             "parents belong to a strictly older age class (10 / 20 / 40 years)",
                             "excluded: a partner who is also an FG-eligible child of a co-resident parent; a child eligible for two couples in one household; eigenbedarf_gedeckt on non-children"])

"""C13 - time-unit variants of a column differ exactly by the fixed factors.

Monitors:
 1. factor oracle (12, 365.25/7, 365.25 - independent of the repository's constants): for every name
    <base>_<unit>[_<level>] that is a rule, a derived node or an input, all four variants are
    requested together and must satisfy x_y = 12 x_m = (365.25/7) x_w = 365.25 x_d within 4 ulp;
    group-level variants must also equal the group sum of the individual-level variant;
 2. supplying a flow input in another unit leaves every node unchanged (differential trace);
 3. the twelve converters: round trips u -> v -> u are the identity within 2 ulp, on hostile values."""
from __future__ import annotations

import datetime
import re
import warnings

import numpy as np

PROPERTY = "C13"
LEVEL = "exploration"
N = {"y": 1.0, "m": 12.0, "w": 365.25 / 7, "d": 365.25}  # units per year
UNIT_RE = re.compile(r"(?P<base>.*_)(?P<u>[ymwd])(?P<agg>_hh|_wthh|_fg|_bg|_eg|_ehe|_sn)?$")
EPS = np.finfo(float).eps


def plan(tier, seed):
    from vf import env
    from vf.core import rng_for

    r = rng_for(seed, PROPERTY, 0)
    ds = env.supported_change_dates()
    dates = ds if tier == "thorough" else sorted({datetime.date(2017, 1, 1), datetime.date(2023, 7, 1),
                                                  ds[int(r.integers(0, len(ds)))]})
    items = [dict(kind="factors", date=str(d), k=k, seed=seed) for d in dates for k in range(2)]
    items += [dict(kind="supply", date=str(d), k=0, part=p, parts=4, seed=seed) for d in dates for p in range(4)]
    items += [dict(kind="converters", k=k, seed=seed) for k in range(4)]
    return items


def run_item(item):
    return {"factors": _factors, "supply": _supply, "converters": _converters}[item["kind"]](item)


def _request_all(env, df, params, functions, targets):
    """Request many targets; names without a function are reported back."""
    missing = []
    for _ in range(6):
        try:
            with warnings.catch_warnings():
                warnings.simplefilter("ignore")
                return env.compute_taxes_and_transfers(df, params, functions, targets=targets), missing
        except ValueError as e:
            if "no corresponding function" not in str(e):
                raise
            bad = re.findall(r'"([^"]+)"', str(e))
            if not bad:
                raise
            missing += bad
            targets = [t for t in targets if t not in bad]
    raise RuntimeError("could not settle target list")


def _factors(item):
    from vf import env, popgen, shadow
    from vf.core import rng_for

    d = datetime.date.fromisoformat(item["date"])
    rng = rng_for(item["seed"], PROPERTY, d.toordinal(), item["k"])
    params, functions = env.environment(d)
    df = popgen.population(rng, d, n_hh=9, params=params)
    df = df.iloc[rng.permutation(len(df))].reset_index(drop=True)
    res = dict(kind="factors", date=item["date"], pop=popgen.digest(df), violations=[], bases=0, variants=0,
               group_sum_checks=0, unavailable=[], names=[])

    def viol(key, what):
        res["violations"].append(dict(key=key, what=what, date=item["date"]))

    nodes, roots, dag, fn = env.graph(functions, list(df.columns))
    bases = {}
    for t in nodes + roots:
        m = UNIT_RE.match(t)
        if m and not t.endswith("_id"):
            bases.setdefault((m.group("base"), m.group("agg") or ""), set()).add(m.group("u"))
    targets = []
    for (b, agg), _ in bases.items():
        for u in "ymwd":
            nm = f"{b}{u}{agg}"
            if nm not in df.columns:
                targets.append(nm)
    ids = ["fg_id", "bg_id", "eg_id", "ehe_id", "sn_id", "wthh_id"]
    out, missing = _request_all(env, df, params, functions, sorted(set(targets + ids)))
    for c in df.columns:
        if c not in out.columns:
            out[c] = df[c].to_numpy()
    for nm in missing:
        viol(f"unavailable:{nm}", f"{nm}: this time-unit variant of an existing flow column can neither be computed nor is it an input")
        res["unavailable"].append(nm)
    for (b, agg), have in sorted(bases.items()):
        names = {u: f"{b}{u}{agg}" for u in "ymwd"}
        if not all(nm in out.columns for nm in names.values()):
            continue
        res["bases"] += 1
        res["variants"] += 4
        res["names"].append(names["y"])
        vy = out[names["y"]].to_numpy().astype(float)
        for u in "mwd":
            vu = out[names[u]].to_numpy().astype(float)
            want = vu * N[u]
            # individual level: one multiplication -> 4 ulp; group level: sum of products vs product of the
            # sum differ by summation rounding -> 64 ulp of the largest magnitude involved
            k_ulp = 64 if agg else 4
            colmax = float(np.nanmax(np.abs(vy))) if len(vy) else 0.0
            tol = k_ulp * EPS * np.maximum(np.maximum(np.abs(vy), np.abs(want)), colmax if agg else 0.0) + 1e-300
            bad = ~((np.abs(vy - want) <= tol) | (np.isnan(vy) & np.isnan(want)))
            if bad.any():
                i = int(np.argmax(bad))
                viol(f"{names[u]}:factor", f"{names['y']}={vy[i]!r} but {names[u]}={vu[i]!r}; {N[u]:.6f} x {vu[i]!r} = {want[i]!r} "
                                           f"(existing units of this name: {sorted(have)})")
                break
        # conversion commutes with group summation
        if agg:
            lvl = agg[1:]
            for u in "ymwd":
                src = f"{b}{u}"
                if src in out.columns and f"{lvl}_id" in out.columns and f"{b}{u}{agg}" not in functions:
                    kind = env.classify({names[u]: fn[names[u]]}).get(names[u]) if names[u] in fn else None
                    if kind not in ("agg_group", None):
                        continue
                    want, _ = shadow.group_reference("sum", out[src].astype(float).tolist(), out[f"{lvl}_id"].tolist())
                    got = out[names[u]].to_numpy().astype(float)
                    res["group_sum_checks"] += 1
                    if not np.allclose(got, np.array(want), rtol=1e-9, atol=1e-9):
                        viol(f"{names[u]}:group_sum", f"{names[u]} is not the {lvl}-sum of {src}")
    # probe columns supplied by the user in each unit: all 12 conversions as wired by the graph factory
    for u, as_int in [(u_, i_) for u_ in "ymwd" for i_ in (False, True)]:
        probe = df.copy()
        vals = np.round(np.abs(df["bruttolohn_m"].to_numpy()) + 100.0 + np.arange(len(df)), 2)
        if as_int:  # whole amounts stored as integers (a user's own column in a non-standard unit)
            vals = (np.floor(vals) * 7 + 5).astype(np.int64 if u in "ym" else np.int32)
        probe[f"vf_probe_{u}"] = vals
        hv = 100.0 + 3.5 * df["hh_id"].to_numpy()
        if as_int:
            hv = (101 + 7 * df["hh_id"].to_numpy()).astype(np.int64)
        probe[f"vf_probe_{u}_hh"] = hv
        tg = [f"vf_probe_{v}" for v in "ymwd" if v != u] + [f"vf_probe_{v}_hh" for v in "ymwd" if v != u]
        try:
            o2, miss = _request_all(env, probe, params, functions, tg)
        except Exception as e:  # noqa: BLE001
            viol(f"probe:{u}:exception", f"user column vf_probe_{u}: requesting {tg} raises {type(e).__name__}: {str(e)[:150]}")
            continue
        for v in "ymwd":
            if v == u or f"vf_probe_{v}" not in o2.columns:
                continue
            res["variants"] += 1
            got = o2[f"vf_probe_{v}"].to_numpy().astype(float)
            want = vals.astype(float) * N[u] / N[v]  # x_v = x_u * N(u) / N(v), N = units per year
            if not np.all(np.abs(got - want) <= 8 * EPS * np.maximum(np.abs(got), np.abs(want))):
                i = int(np.argmax(np.abs(got - want)))
                viol(f"{u}_to_{v}:wiring", f"user column vf_probe_{u}={vals[i]!r}: derived vf_probe_{v}={got[i]!r}, expected {want[i]!r}")
            if f"vf_probe_{v}_hh" in o2.columns:
                res["variants"] += 1
                goth = o2[f"vf_probe_{v}_hh"].to_numpy().astype(float)
                wanth = hv.astype(float) * N[u] / N[v]
                if not np.all(np.abs(goth - wanth) <= 8 * EPS * np.maximum(np.abs(goth), np.abs(wanth))):
                    viol(f"{u}_to_{v}:wiring_group_level", f"user column vf_probe_{u}_hh: derived vf_probe_{v}_hh differs from the factor")
    # user RULES registered under a new name (a reform variant next to the status quo), written as functools.wraps wrappers of
    # internal rules: the variants in the other units are derived from the column of THAT name, not from the wrapped rule
    import functools

    cands = [t for t in nodes if t in functions and shadow.is_scalar_rule(functions[t]) and UNIT_RE.match(t) and not UNIT_RE.match(t).group("agg")
             and functions[t].__annotations__.get("return") is float
             # functools.wraps copies the rounding key too; a new name marked for rounding without a spec is rightly refused (C10)
             and "params_key_for_rounding" not in (getattr(functions[t], "__info__", None) or {})]
    for t in [cands[i] for i in rng.choice(len(cands), min(3, len(cands)), replace=False)] if cands else []:
        m = UNIT_RE.match(t)
        u = m.group("u")
        orig = functions[t]

        def make(orig_):
            @functools.wraps(orig_)
            def g(*a, **k):
                return orig_(*a, **k) + 50.0
            return g

        key = f"vfreform_{m.group('base')}{u}"
        f2 = dict(functions)
        f2[key] = make(orig)
        tg = [key] + [f"vfreform_{m.group('base')}{v}" for v in "ymwd" if v != u] + [f"vfreform_{m.group('base')}{v}_hh" for v in "ymwd"]
        try:
            o3, miss = _request_all(env, df, params, f2, tg)
        except Exception as e:  # noqa: BLE001
            viol(f"user_rule:{t}:exception", f"rule {t} + 50 registered as {key}: requesting {tg[:4]} raises {type(e).__name__}: {str(e)[:150]}")
            continue
        if key not in o3.columns:
            continue
        src = o3[key].to_numpy().astype(float)
        for v in "ymwd":
            nm = f"vfreform_{m.group('base')}{v}"
            if v == u or nm not in o3.columns:
                continue
            res["variants"] += 1
            res["user_rule_variants"] = res.get("user_rule_variants", 0) + 1
            got = o3[nm].to_numpy().astype(float)
            want = src * N[u] / N[v]
            if not np.all((np.abs(got - want) <= 8 * EPS * np.maximum(np.abs(got), np.abs(want))) | (np.isnan(got) & np.isnan(want))):
                i = int(np.nanargmax(np.abs(got - want)))
                viol(f"user_rule:{u}_to_{v}", f"user rule {key} (= {t} + 50) = {src[i]!r}: derived {nm} = {got[i]!r}, expected {want[i]!r}")
                break
    res["sample"] = dict(date=item["date"], population=popgen.describe(df), names=res["names"][:10])
    return res


def _flow_inputs():
    from _gettsim.config import TYPES_INPUT_VARIABLES

    return [c for c, t in TYPES_INPUT_VARIABLES.items() if t is float and UNIT_RE.match(c)]


def _supply(item):
    from vf import env, popgen
    from vf.core import rng_for

    d = datetime.date.fromisoformat(item["date"])
    rng = rng_for(item["seed"], PROPERTY, d.toordinal(), 7)
    params, functions = env.environment(d)
    df = popgen.population(rng, d, n_hh=8, params=params)
    flows = _flow_inputs()
    for c in flows:
        df[c] = np.round(df[c])  # integer amounts: the y <-> m round trip is exact in floating point
    res = dict(kind="supply", date=item["date"], pop=popgen.digest(df), violations=[], runs=0, supplied=[],
               nodes_compared=0, exact_runs=0, amplified=[])

    def viol(key, what):
        res["violations"].append(dict(key=key, what=what, date=item["date"]))

    S0, nodes, roots, dag, fn = env.trace(df, params, functions)
    mine = [c for i, c in enumerate(c for c in flows if c in roots) if i % item["parts"] == item["part"]]
    for c in mine:
        m = UNIT_RE.match(c)
        u0, b, agg = m.group("u"), m.group("base"), m.group("agg") or ""
        for u in "ymwd":
            if u == u0:
                continue
            new = f"{b}{u}{agg}"
            vals = df[c].to_numpy() * (N[u0] / N[u])
            back = vals * (N[u0] / N[u]) if False else None
            data = df.drop(columns=[c]).copy()
            data[new] = vals
            try:
                with warnings.catch_warnings():
                    warnings.simplefilter("ignore")
                    out = env.compute_taxes_and_transfers(data, params, functions, targets=[*[t for t in nodes if t != new], c])
            except Exception as e:  # noqa: BLE001
                viol(f"supply:{c}:exception", f"supplying {new} instead of the input {c} raises {type(e).__name__}: {str(e)[:200]}")
                continue
            res["runs"] += 1
            res["supplied"].append((c, new))
            exact = bool(np.all((vals * (N[u] / N[u0])) == df[c].to_numpy())) and u in "ym" and u0 in "ym"
            res["exact_runs"] += int(exact)
            # the original input is now a derived node: it must come back (conversion u -> u0)
            back = out[c].to_numpy().astype(float)
            orig = df[c].to_numpy().astype(float)
            if not np.all(np.abs(back - orig) <= 1e-9 * np.maximum(1.0, np.abs(orig))):
                i = int(np.argmax(np.abs(back - orig)))
                viol(f"{u}_to_{u0}:wiring", f"{c} re-derived from the supplied {new} is {back[i]!r}, the value supplied was equivalent to {orig[i]!r} "
                                            f"(conversion {u} -> {u0} as wired in the dependency graph)")
                continue
            for t in nodes:
                if t not in out.columns:
                    continue
                res["nodes_compared"] += 1
                a, b_ = S0[t].to_numpy(), out[t].to_numpy()
                if t.endswith("_id"):
                    from vf.tracecmp import same_partition

                    if not same_partition(a, b_):
                        viol(f"supply:{c}->{t}", f"supplying {new} instead of {c} changes the partition {t}")
                        break
                    continue
                af, bf = a.astype(float), b_.astype(float)
                if exact:
                    bad = ~((af == bf) | (np.isnan(af) & np.isnan(bf)))
                else:
                    bad = ~((np.abs(af - bf) <= 1e-9 * np.maximum(1.0, np.abs(af))) | (np.isnan(af) & np.isnan(bf)))
                if bad.any():
                    i = int(np.argmax(bad))
                    if not exact:
                        # the supplied column differs from the original in the last bits, so a threshold comparison
                        # downstream may flip; reported, not judged (the conversion itself is judged above, exactly)
                        res["amplified_count"] = res.get("amplified_count", 0) + 1
                        if len(res["amplified"]) < 5:
                            res["amplified"].append(dict(input=c, supplied=new, node=t, a=af[i], b=bf[i]))
                        break
                    viol(f"supply:{c}->{t}", f"supplying {new} (= {c} x {N[u0] / N[u]:.6g}) instead of {c} changes {t}: "
                                             f"{af[i]!r} -> {bf[i]!r} (exact round trip: {exact})")
                    break
    res["sample"] = dict(date=item["date"], supplied=res["supplied"][:6])
    return res


def _converters(item):
    from _gettsim import time_conversion as tc
    from vf.core import rng_for

    rng = rng_for(item["seed"], PROPERTY, 3, item["k"])
    res = dict(kind="converters", violations=[], calls=0, pairs=0)
    xs = np.concatenate([[0.0, 1.0, -1.0, 0.01, 1e-12, 1e9, 12.0, 365.25, 7.0, 52.178571428571431],
                         np.round(rng.uniform(-1e6, 1e6, 300), 2), rng.uniform(-1, 1, 100)])
    for u in "ymwd":
        for v in "ymwd":
            if u == v:
                continue
            f = getattr(tc, f"{u}_to_{v}")
            g = getattr(tc, f"{v}_to_{u}")
            res["pairs"] += 1
            for x in xs.tolist():
                y = f(x)
                res["calls"] += 1
                want = x * N[u] / N[v]
                if abs(y - want) > 4 * EPS * max(abs(y), abs(want)):
                    res["violations"].append(dict(key=f"{u}_to_{v}:factor", what=f"{u}_to_{v}({x!r}) = {y!r}, expected {want!r}"))
                    break
                z = g(y)
                if abs(z - x) > 2 * EPS * max(abs(z), abs(x)) * 2:
                    res["violations"].append(dict(key=f"{u}_to_{v}:round_trip", what=f"{v}_to_{u}({u}_to_{v}({x!r})) = {z!r}"))
                    break
    return res


def summarize(results, tier, seed):
    ok = [r for r in results if "_harness_error" not in r]
    viol = [dict(key=v["key"], what=v["what"], witness=v, item=r["_item"]) for r in ok for v in r["violations"]]
    fac = [r for r in ok if r["kind"] == "factors"]
    sup = [r for r in ok if r["kind"] == "supply"]
    conv = [r for r in ok if r["kind"] == "converters"]
    inconclusive = []
    if sum(r["bases"] for r in fac) < 50:
        inconclusive.append("fewer than 50 (base name, date) cases with all four units observed")
    if sum(r["runs"] for r in sup) == 0:
        inconclusive.append("no run with an input supplied in another unit")
    amp = [a for r in sup for a in r["amplified"]]
    cov = dict(
        user_rule_variants_checked=sum(r.get("user_rule_variants", 0) for r in results if "_harness_error" not in r),
        evaluations=sum(r["variants"] for r in fac) + sum(r["runs"] for r in sup) + sum(r["calls"] for r in conv),
        distinct_nontrivial=len({(r["date"], n) for r in fac for n in r["names"]}) + len({(r["date"], *s) for r in sup for s in r["supplied"]}),
        rule="evaluation = one column variant compared by the factor oracle, one all-nodes run with an input supplied "
             "in another unit, or one converter call; distinct non-trivial = (date, base name with all four units) and "
             "(date, input, supplied unit)",
        base_names_with_four_units=sum(r["bases"] for r in fac), group_sum_checks=sum(r["group_sum_checks"] for r in fac),
        supply_runs=sum(r["runs"] for r in sup), supply_runs_with_exact_round_trip=sum(r["exact_runs"] for r in sup),
        nodes_compared_in_supply_runs=sum(r["nodes_compared"] for r in sup),
        threshold_flips_after_inexact_conversion=amp[:5],
        runs_with_threshold_flip_after_inexact_conversion=sum(r.get("amplified_count", 0) for r in sup),
        converter_calls=sum(r["calls"] for r in conv), converter_pairs=sum(r["pairs"] for r in conv),
        unavailable_variants=sorted({n for r in fac for n in r["unavailable"]}),
        dates=sorted({r["date"] for r in fac}),
        samples=[r["sample"] for r in fac[:1]] + [r["sample"] for r in sup[:1]],
    )
    return dict(coverage=cov, violations=viol, inconclusive=inconclusive,
                assumptions=["supply runs use integer amounts; y<->m round trips are exact and compared bitwise, w/d within 1e-9 relative",
                             "a threshold comparison flipped by a conversion error below 1e-9 relative is reported, not judged"])

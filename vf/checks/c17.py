"""C17 - means-tested benefits are mutually exclusive as the priority rules say.

Monitor: per-person invariants over all-nodes traces; the priority flags are *re-derived by the
monitor* from the need / income / entitlement columns of the same trace.  Workload: income sweeps
of household templates through the break-even points of the priority checks (coarse sweep, then
+-1 euro / cent refinement around every regime change located on the real system), multi-BG
households, pensioner and mixed households, random populations, all change dates >= 2015."""
from __future__ import annotations

import datetime

import numpy as np

PROPERTY = "C17"
LEVEL = "exploration"
TEMPLATES = ["single_parent", "family_m", "family_u", "patchwork", "couple_m", "single", "selfsufficient_kids",
             "big_family", "mixed_age_couple", "pens_couple", "three_gen", "adult_child"]


def plan(tier, seed):
    from vf import env
    from vf.core import rng_for

    r = rng_for(seed, PROPERTY, 0)
    ds = env.supported_change_dates()
    dates = ds if tier == "thorough" else sorted({datetime.date(2016, 1, 1), datetime.date(2020, 1, 1), datetime.date(2023, 1, 1),
                                                  ds[int(r.integers(0, len(ds)))]})
    items = []
    for d in dates:
        for ti, t in enumerate(TEMPLATES):
            items.append(dict(kind="sweep", date=str(d), template=t, k=ti, seed=seed))
        for vi in range(1, 4):  # further draws of the family shapes around which the priority checks bind, moderate rents
            for t in ("single_parent", "family_m", "big_family"):
                items.append(dict(kind="sweep", date=str(d), template=t, k=100 * vi + TEMPLATES.index(t), seed=seed, rent=[350.0, 400.0, 450.0][vi - 1]))
        for k in range(3):
            items.append(dict(kind="random", date=str(d), k=k, seed=seed))
        # clean grid: single parents and couples with 1..4 children, no other income or wealth, two rents, wage in 20-euro steps
        for rent in (350.0, 450.0):
            for partnered in (False, True):
                items.append(dict(kind="grid", date=str(d), k=700 + int(rent) + int(partnered), seed=seed, rent=rent, partnered=partnered))
        items.append(dict(kind="pensioners", date=str(d), k=50, seed=seed))
    return items


def monitor(T, res, ctx):
    """Invariants on one trace. Returns regime code per person."""
    col = lambda c: T[c].to_numpy().astype(float)  # noqa: E731
    alg2, wg, kiz, gsa = col("arbeitsl_geld_2_m_bg"), col("wohngeld_m_wthh"), col("kinderzuschl_m_bg"), col("grunds_im_alter_m_eg")
    pid = T["p_id"].to_numpy()

    def viol(key, mask, what):
        if mask.any():
            i = int(np.argmax(mask))
            res["violations"].append(dict(key=key, what=f"{what}: person {pid[i]} (hh {T['hh_id'].iloc[i]}): ALG II {alg2[i]}, Wohngeld {wg[i]}, "
                                                          f"Kinderzuschlag {kiz[i]}, Grundsicherung {gsa[i]} [{ctx}]"))

    viol("overlap:alg2+wohngeld", (alg2 > 0) & (wg > 0), "ALG II / Buergergeld together with Wohngeld")
    viol("overlap:alg2+kinderzuschl", (alg2 > 0) & (kiz > 0), "ALG II / Buergergeld together with Kinderzuschlag")
    viol("overlap:grunds_im_alter+alg2", (gsa > 0) & (alg2 > 0), "Grundsicherung im Alter together with ALG II")
    viol("overlap:grunds_im_alter+wohngeld", (gsa > 0) & (wg > 0), "Grundsicherung im Alter together with Wohngeld")
    viol("overlap:grunds_im_alter+kinderzuschl", (gsa > 0) & (kiz > 0), "Grundsicherung im Alter together with Kinderzuschlag")
    # one part-household per Bedarfsgemeinschaft
    g = T.groupby("bg_id")["wthh_id"].nunique()
    if (g > 1).any():
        res["violations"].append(dict(key="bg_split_over_wthh", what=f"members of Bedarfsgemeinschaft {g[g > 1].index[0]} are in different Wohngeld part-households [{ctx}]"))
    # Kinderzuschlag only where it (alone or with Wohngeld) covers the need - flags re-derived here
    need, inc = col("arbeitsl_geld_2_regelbedarf_m_bg"), col("arbeitsl_geld_2_eink_m_bg")
    kiz_ent, wg_ent = col("_kinderzuschl_nach_vermög_check_m_bg"), col("wohngeld_anspruchshöhe_m_bg")
    tol = 1e-6
    covers = (inc + kiz_ent >= need - tol) | (inc + kiz_ent + wg_ent >= need - tol)
    viol("kinderzuschl_without_covered_need", (kiz > 0) & ~covers, "Kinderzuschlag paid although neither it nor it plus Wohngeld covers the assessed need")
    # ALG II although the monitor's own check says Wohngeld and/or Kinderzuschlag cover the need
    covered_any = (inc + wg_ent >= need + tol) | (inc + kiz_ent >= need + tol) | (inc + kiz_ent + wg_ent >= need + tol)
    viol("alg2_despite_priority", (alg2 > 0) & covered_any, "ALG II paid although Wohngeld and/or Kinderzuschlag cover the assessed need")
    # Wohngeld only for the part-household whose needs units passed the priority check
    prio = (inc + wg_ent >= need - tol) | (inc + kiz_ent + wg_ent >= need - tol)
    prio_any = T.assign(_p=prio).groupby("wthh_id")["_p"].transform("max").to_numpy().astype(bool)
    viol("wohngeld_without_priority", (wg > 0) & ~prio_any, "Wohngeld paid to a part-household none of whose needs units passes the priority check")
    res["persons"] += len(T)
    for name, m in (("alg2", alg2 > 0), ("wohngeld", wg > 0), ("kinderzuschl", kiz > 0), ("grunds_im_alter", gsa > 0),
                    ("wohngeld+kinderzuschl", (wg > 0) & (kiz > 0))):
        res["recipients"][name] = res["recipients"].get(name, 0) + int(m.sum())
    return (alg2 > 0).astype(int) + 2 * (wg > 0) + 4 * (kiz > 0) + 8 * (gsa > 0)


def run_item(item):
    from vf import env, popgen
    from vf.core import rng_for

    d = datetime.date.fromisoformat(item["date"])
    rng = rng_for(item["seed"], PROPERTY, d.toordinal(), item["k"], 1 if item["kind"] == "sweep" else 2)
    params, functions = env.environment(d)
    res = dict(kind=item["kind"], date=item["date"], violations=[], persons=0, recipients={}, regime_changes=0, runs=0,
               multi_bg_households=0, regimes_seen=set())
    if item["kind"] == "grid":
        import pandas as pd

        parts = []
        wages = np.arange(0, 3001, 20, dtype=float)
        for n_kids in (1, 2, 3, 4):
            b = popgen._Builder(rng, d.year)
            b.new_hh()
            a = b.person(35)
            c = None
            if item["partnered"]:
                c = b.person(33)
                b.couple(a, c, True)
            for i in range(n_kids):
                b.child([8, 5, 3, 1][i], a, c, kind=True, in_ausbildung=False)
            base = popgen.population(rng, d, params=params, rows=b.rows)
            for col in base.columns:
                if base[col].dtype.kind == "f":
                    base[col] = 0.0
            base["bruttokaltmiete_m_hh"] = item["rent"]
            base["heizkosten_m_hh"] = 50.0
            base["wohnfläche_hh"] = 60.0
            base["arbeitsstunden_w"] = np.where(base["alter"] >= 18, 20.0, 0.0)
            for col in ("rentner", "selbstständig", "in_priv_krankenv", "arbeitssuchend", "anwartschaftszeit", "elterngeld_claimed",
                        "voll_erwerbsgemind", "teilw_erwerbsgemind", "eigenbedarf_gedeckt", "budgetsatz_erzieh", "schwerbeh_g"):
                base[col] = False
            base["behinderungsgrad"] = 0
            base["steuerklasse"] = np.where(base["alter"] >= 18, 3 if item["partnered"] else 2, 1)
            base["gemeinsam_veranlagt"] = (base["p_id_ehepartner"] >= 0)
            parts.append(popgen.replicate_with_wages(base, wages, who=0))
        n_p = max(int(p_["p_id"].max()) for p_ in parts) + 1
        n_h = max(int(p_["hh_id"].max()) for p_ in parts) + 1
        for i, part in enumerate(parts):
            parts[i] = popgen.relabel(part, {int(x): int(x) + i * n_p for x in part["p_id"]}, {int(h): int(h) + i * n_h for h in part["hh_id"].unique()})
        df = pd.concat(parts, ignore_index=True)
        for col in parts[0].columns:
            df[col] = df[col].astype(parts[0][col].dtype)
        T, nodes, roots, dag, fn = env.trace(df, params, functions)
        res["runs"] += 1
        reg = monitor(T, res, f"grid of {'couples' if item['partnered'] else 'single parents'} with 1-4 children, rent {item['rent']}, at {item['date']}")
        res["regimes_seen"] |= set(reg.tolist())
        res["sample"] = dict(date=item["date"], kind="grid", rent=item["rent"], partnered=item["partnered"], persons=len(df))
    elif item["kind"] == "pensioners":
        # pensioner households swept along the earnings points (pension from ~0 to well above the subsistence level)
        base = popgen.population(rng, d, n_hh=2, params=params, archetypes=["pensioner", "pens_couple"], cycle=True)
        base["rentner"] = True
        base["alter"] = np.maximum(base["alter"], 68)
        base["geburtsjahr"] = d.year - base["alter"]
        base["jahr_renteneintr"] = base["geburtsjahr"] + 65
        base["vermögen_bedürft"] = 1000.0
        for c in ("priv_rente_m", "bruttolohn_m", "eink_selbst_m", "kapitaleink_brutto_m", "eink_vermietung_m", "sonstig_eink_m"):
            base[c] = 0.0
        points = np.arange(0, 61, 1.5)
        parts = []
        for who in range(len(base)):
            parts.append(popgen.replicate_with_wages(base, points, column="entgeltp_west", who=who))
        n_p, n_h = int(parts[0]["p_id"].max()) + 1, int(parts[0]["hh_id"].max()) + 1
        for i, part in enumerate(parts):
            parts[i] = popgen.relabel(part, {int(p): int(p) + i * n_p for p in part["p_id"]}, {int(h): int(h) + i * n_h for h in part["hh_id"].unique()})
        import pandas as pd

        df = pd.concat(parts, ignore_index=True)
        for c in base.columns:
            df[c] = df[c].astype(base[c].dtype)
        T, nodes, roots, dag, fn = env.trace(df, params, functions)
        res["runs"] += 1
        reg = monitor(T, res, f"pensioner sweep at {item['date']}")
        res["regimes_seen"] |= set(reg.tolist())
        res["sample"] = dict(date=item["date"], kind="pensioners swept along entgeltp_west", persons=len(df))
    elif item["kind"] == "random":
        df = popgen.population(rng, d, n_hh=20, params=params)
        T, nodes, roots, dag, fn = env.trace(df, params, functions)
        res["runs"] += 1
        reg = monitor(T, res, f"random population at {item['date']}")
        res["regimes_seen"] |= set(reg.tolist())
        res["multi_bg_households"] = int((T.groupby("hh_id")["bg_id"].nunique() > 1).sum())
        res["sample"] = dict(date=item["date"], population=popgen.describe(df))
    else:
        base = popgen.population(rng, d, n_hh=1, params=params, archetypes=[item["template"]])
        adults = np.where((base["alter"] >= 18) & ~base["rentner"])[0]
        who = int(adults[0]) if len(adults) else 0
        base["vermögen_bedürft"] = np.minimum(base["vermögen_bedürft"], 3000.0)
        base["bruttokaltmiete_m_hh"] = float(item.get("rent") or rng.choice([350.0, 600.0, 900.0]))
        base["eink_vermietung_m"] = 0.0
        wages = np.arange(0, 6001, 50, dtype=float) if not item.get("rent") else np.arange(0, 3001, 20, dtype=float)
        df = popgen.replicate_with_wages(base, wages, who=who)
        T, nodes, roots, dag, fn = env.trace(df, params, functions)
        res["runs"] += 1
        reg = monitor(T, res, f"sweep {item['template']} at {item['date']}")
        res["regimes_seen"] |= set(reg.tolist())
        # regime per copy = regime of the swept person
        n_p = int(base["p_id"].max()) + 1
        rp = np.array([reg[(T["p_id"] == base["p_id"].iloc[who] + i * n_p).to_numpy()][0] for i in range(len(wages))])
        changes = [i for i in range(len(wages) - 1) if rp[i] != rp[i + 1]]
        res["regime_changes"] = len(changes)
        fine = []
        for i in changes[:8]:
            lo, hi = wages[i], wages[i + 1]
            fine += list(np.arange(lo, hi + 0.5, 1.0))
        if fine:
            df2 = popgen.replicate_with_wages(base, np.array(fine), who=who)
            T2, *_ = env.trace(df2, params, functions)
            res["runs"] += 1
            reg2 = monitor(T2, res, f"refined sweep {item['template']} at {item['date']}")
            rp2 = np.array([reg2[(T2["p_id"] == base["p_id"].iloc[who] + i * n_p).to_numpy()][0] for i in range(len(fine))])
            cents = []
            for i in range(len(fine) - 1):
                if rp2[i] != rp2[i + 1] and fine[i + 1] - fine[i] <= 1.0:
                    cents += [fine[i] + c / 100 for c in range(0, 101, 1)]
            if cents:
                df3 = popgen.replicate_with_wages(base, np.array(cents[:600]), who=who)
                T3, *_ = env.trace(df3, params, functions)
                res["runs"] += 1
                monitor(T3, res, f"cent sweep {item['template']} at {item['date']}")
        # wealth regime: wealth just above the Kinderzuschlag exemption reduces the benefit without removing it;
        # the priority checks must then work with the reduced amount (the exemption is read from the first run)
        if "kinderzuschl_vermög_freib_bg" in T.columns and (T["_kinderzuschl_vor_vermög_check_m_bg"] > 0).any():
            ex = float(T.loc[T["p_id"] == base["p_id"].iloc[who], "kinderzuschl_vermög_freib_bg"].iloc[0])
            kiz_rows = T["_kinderzuschl_vor_vermög_check_m_bg"].to_numpy() > 0
            w_kiz = sorted(set(df.loc[kiz_rows & (df["p_id"].to_numpy() % n_p == base["p_id"].iloc[who]), "bruttolohn_m"].tolist()))
            if w_kiz and np.isfinite(ex):
                lo_w, hi_w = min(w_kiz), max(w_kiz)
                for delta in (50.0, 150.0, 300.0, 400.0):
                    b2 = base.copy()
                    b2["vermögen_bedürft"] = 0.0
                    b2.iloc[who, b2.columns.get_loc("vermögen_bedürft")] = ex + delta
                    dfw = popgen.replicate_with_wages(b2, np.arange(lo_w, hi_w + 1, 25.0), who=who)
                    Tw, *_ = env.trace(dfw, params, functions)
                    res["runs"] += 1
                    res["wealth_regime_runs"] = res.get("wealth_regime_runs", 0) + 1
                    monitor(Tw, res, f"wealth = exemption + {delta}, sweep {item['template']} at {item['date']}")
                    red = (Tw["_kinderzuschl_nach_vermög_check_m_bg"] < Tw["_kinderzuschl_vor_vermög_check_m_bg"]) & (Tw["_kinderzuschl_nach_vermög_check_m_bg"] > 0)
                    res["persons_with_wealth_reduced_kinderzuschlag"] = res.get("persons_with_wealth_reduced_kinderzuschlag", 0) + int(red.sum())
        res["multi_bg_households"] = int((T.groupby("hh_id")["bg_id"].nunique() > 1).sum())
        res["sample"] = dict(date=item["date"], template=item["template"], swept_person=who,
                             regime_by_wage=[(float(w), int(r_)) for w, r_ in zip(wages[::12], rp[::12])])
    res["regimes_seen"] = sorted(int(x) for x in res["regimes_seen"])
    return res


def summarize(results, tier, seed):
    ok = [r for r in results if "_harness_error" not in r]
    viol = [dict(key=v["key"], what=v["what"], witness=v, item=r["_item"]) for r in ok for v in r["violations"]]
    rec = {}
    for r in ok:
        for k, v in r["recipients"].items():
            rec[k] = rec.get(k, 0) + v
    inconclusive = [f"no recipient of {b} observed" for b in ("alg2", "wohngeld", "kinderzuschl", "grunds_im_alter") if rec.get(b, 0) < 10]
    if sum(r["regime_changes"] for r in ok) < 10:
        inconclusive.append("fewer than 10 regime changes located by the sweeps")
    if sum(r["multi_bg_households"] for r in ok) == 0:
        inconclusive.append("no household with several needs units observed")
    cov = dict(
        evaluations=sum(r["runs"] for r in ok),
        distinct_nontrivial=len({(r["date"], r["_item"].get("template"), r["_item"]["k"]) for r in ok}),
        rule="evaluation = one all-nodes trace (wage sweep of a household template in 50-euro steps, its 1-euro and 1-cent "
             "refinements around each located regime change, or a random population); distinct = (date, template | population)",
        persons_checked=sum(r["persons"] for r in ok), recipients=rec,
        regime_changes_located=sum(r["regime_changes"] for r in ok),
        households_with_several_needs_units=sum(r["multi_bg_households"] for r in ok),
        wealth_regime_runs=sum(r.get("wealth_regime_runs", 0) for r in ok),
        persons_with_wealth_reduced_kinderzuschlag=sum(r.get("persons_with_wealth_reduced_kinderzuschlag", 0) for r in ok),
        regime_codes_seen=sorted({x for r in ok for x in r["regimes_seen"]}),
        dates=sorted({r["date"] for r in ok}),
        samples=[r["sample"] for r in ok[:3] if "sample" in r],
    )
    return dict(coverage=cov, violations=viol, inconclusive=inconclusive,
                assumptions=["regime code: 1 ALG II, 2 Wohngeld, 4 Kinderzuschlag, 8 Grundsicherung im Alter (sums = combinations)",
                             "priority flags are recomputed by the monitor from need, income and entitlement columns with a 1e-6 tolerance at equality"])

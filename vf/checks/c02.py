"""C02 - separability of unrelated households and invariance under relabelling of ids.

Monitor: differential trace comparison.  trace(A) vs trace(A ++ B) restricted to A, with B
placed after, before and interleaved with A, and trace(relabel(A)) mapped back through the
inverse id map; plus a collision monitor on every derived *_id column of the joint run.
"""
from __future__ import annotations

import datetime

import numpy as np

PROPERTY = "C02"
LEVEL = "exploration"
ID_NODES = ["wthh_id", "fg_id", "bg_id", "eg_id", "ehe_id", "sn_id"]


def plan(tier, seed):
    from vf import env
    from vf.core import rng_for

    ds = env.supported_change_dates()
    if tier == "quick":
        r = rng_for(seed, PROPERTY, 1)
        dates = sorted({datetime.date(2016, 1, 1), datetime.date(2023, 7, 1),
                        ds[int(r.integers(0, len(ds)))]})
        k_pairs = 40
    else:
        dates = ds
        k_pairs = 24
    items = [dict(date=str(d), k=k, seed=seed) for d in dates for k in range(k_pairs)]
    items += [dict(date=str(dates[i % len(dates)]), k=5000 + i, seed=seed, large=True) for i in range(1 if tier == "quick" else 4)]
    return items


def run_item(item):
    from vf import env, popgen, tracecmp
    from vf.core import rng_for

    d = datetime.date.fromisoformat(item["date"])
    rng = rng_for(item["seed"], PROPERTY, d.toordinal(), item["k"])
    params, functions = env.environment(d)
    A = popgen.population(rng, d, n_hh=int(rng.integers(2, 7)), params=params)
    corner = [None, "huge", "zero", "negative"][item["k"] % 4]
    if item.get("large"):
        # B is large: > 4096 rows in the joint run and hundreds of young people covering their own needs
        B = popgen.population(rng, d, n_hh=1300, params=params, archetypes=["selfsufficient_kids", "family_m", "single", "big_family", "student_wg"])
        young = (B["alter"] < 25) & (B["alter"] >= 15) & (B["p_id_elternteil_1"] >= 0)
        B["eigenbedarf_gedeckt"] = B["eigenbedarf_gedeckt"] | (young & (rng.random(len(B)) < 0.5))
    else:
        B = popgen.population(rng, d, n_hh=int(rng.integers(1, 8)), params=params, corner=corner)
    tA, nodes, roots, dag, fn = env.trace(A, params, functions)
    kinds = env.classify(fn)
    res = dict(date=item["date"], k=item["k"], popA=popgen.digest(A), popB=popgen.digest(B),
               personsA=len(A), personsB=len(B), runs=1, nodes_compared=0, violations=[],
               cases=[], collisions_checked=0)

    def record(c, label, extra):
        res["nodes_compared"] += c["compared"]
        for v in c["violations"] + c["noise"] + c["amplified"]:
            # row order of A's persons is preserved in all transformations, so even float sums
            # must be bit-identical: noise counts as violation here
            res["violations"].append(dict(
                key=f"{v['node']}:{label.split(':')[0]}", label=label,
                what=f"node {v['node']} of population A differs when {label}: {v}", detail=v, **extra))

    for mode in (("before", "interleave") if item.get("large") else ("after", "before", "interleave")):
        J = popgen.concat_disjoint(A, B, rng, mode)
        try:
            tJ, nodesJ, _, _, _ = env.trace(J, params, functions)
        except Exception as e:  # noqa: BLE001
            res["violations"].append(dict(key=f"joint:exception:{type(e).__name__}",
                                          what=f"A++B ({mode}) raises although A and B are valid: {str(e)[:200]}"))
            continue
        res["runs"] += 1
        record(tracecmp.compare(tA, tJ, nodes, dag, kinds), f"joint:{mode} with B corner={corner}", {})
        res["cases"].append((res["popA"], res["popB"], mode))
        # collision monitor: a derived id value never spans two households
        for idc in ID_NODES:
            if idc in tJ.columns:
                res["collisions_checked"] += 1
                g = tJ.groupby(idc)["hh_id"].nunique()
                if (g > 1).any():
                    bad = int(g[g > 1].index[0])
                    res["violations"].append(dict(
                        key=f"collision:{idc}", what=f"{idc}={bad} is shared by persons of different households "
                        f"{sorted(tJ.loc[tJ[idc] == bad, 'hh_id'].unique().tolist())}"))
    # relabelling
    pids = A["p_id"].tolist()
    hids = sorted(A["hh_id"].unique().tolist())
    maps = {
        "sparse_random": (popgen.random_injective(rng, pids, 20000), popgen.random_injective(rng, hids, 20000)),
        "order_reversing": ({p: 5000 - 3 * p for p in pids}, {h: 900 - 7 * h for h in hids}),
        "shift": ({p: p + 1 for p in pids}, {h: h + 11 for h in hids}),
        # hashed / very large person ids (not exactly representable as float64); household ids stay small
        "huge_p_ids": ({p: 2 ** 53 + 1 + 2 * p for p in pids}, {h: h for h in hids}),
    }
    # label 0 is a valid identifier (only -1 means "nobody"): hand it to persons other rows point to - spouses first,
    # pensioners' spouses before others - and swap it with whoever holds it
    targets = []
    for col in ("p_id_ehepartner", "p_id_einstandspartner", "p_id_elternteil_1", "p_id_kindergeld_empf", "p_id_betreuungsk_träger"):
        if col in A.columns:
            ref = A.loc[A[col] >= 0].sort_values("rentner", ascending=False, kind="stable")[col].tolist()
            targets += [t for t in dict.fromkeys(ref) if t not in targets][:2]
    for t in targets[:3]:
        pm0 = {p: p for p in pids}
        pm0[t] = 0
        if 0 in pm0 and t != 0:
            pm0[0] = t
        if t != 0:
            maps[f"label_zero_to_{t}"] = (pm0, {h: h for h in hids})
    for name, (pm, hm) in maps.items():
        A2 = popgen.relabel(A, pm, hm)
        try:
            t2, nodes2, _, _, _ = env.trace(A2, params, functions)
        except Exception as e:  # noqa: BLE001
            res["violations"].append(dict(key=f"relabel:exception:{type(e).__name__}",
                                          what=f"relabelled population ({name}) raises: {str(e)[:200]}"))
            continue
        res["runs"] += 1
        record(tracecmp.compare(tA, t2, nodes, dag, kinds, pid_map=pm), f"relabel:{name}", dict(pmap_sample=dict(list(pm.items())[:5])))
        res["cases"].append((res["popA"], "relabel", name))
    res["sample"] = dict(A=popgen.describe(A), B=popgen.describe(B), corner_B=corner)
    return res


def summarize(results, tier, seed):
    ok = [r for r in results if "_harness_error" not in r]
    viol = []
    cases = set()
    for r in ok:
        for c in r["cases"]:
            cases.add(tuple(c))
        for v in r["violations"]:
            viol.append(dict(key=v["key"], what=v["what"], witness=v, item=r["_item"]))
    inconclusive = []
    if len(cases) < 10:
        inconclusive.append("fewer than 10 distinct (A, B, placement) / (A, relabelling) cases")
    cov = dict(
        evaluations=sum(r["runs"] for r in ok),
        distinct_nontrivial=len(cases),
        rule="evaluation = one all-nodes simulation; a case is (population A, population B, placement of B) "
             "or (population A, relabelling); all are non-trivial (B non-empty, map not identity); distinct by digests",
        dates=sorted({r["date"] for r in ok}),
        pairs=len({(r["popA"], r["popB"]) for r in ok}),
        largest_joint_population=max((r["personsA"] + r["personsB"] for r in ok), default=0),
        node_comparisons=sum(r["nodes_compared"] for r in ok),
        id_collision_checks=sum(r["collisions_checked"] for r in ok),
        samples=[r["sample"] for r in ok[:2]],
    )
    return dict(coverage=cov, violations=viol, inconclusive=inconclusive,
                assumptions=["valid populations from vf.popgen, ids < 20000, <= 80 persons per run",
                             "a Familiengemeinschaft has fewer than 100 self-sufficient children (bg_id = fg_id*100 + k)"])

"""C15 - every computed column with a group suffix has one value per group.

Monitor: invariant over all-nodes traces: for every function node whose name ends in a group
suffix, the values within each group of the matching <level>_id column must be identical
(NaN-aware).  Attribution: a violating node whose same-level parents are all constant is a
*root*; the offending arguments are the parents that vary within the node's groups.  Nodes
below a violating same-level parent are propagated, not reported."""
from __future__ import annotations

import datetime

import numpy as np

PROPERTY = "C15"
LEVEL = "exploration"
LEVELS = ["wthh", "hh", "fg", "bg", "eg", "ehe", "sn"]


def level_of(name):
    for l in LEVELS:
        if name.endswith("_" + l):
            return l
    return None


def plan(tier, seed):
    from vf import env
    from vf.core import rng_for

    r = rng_for(seed, PROPERTY, 0)
    ds = env.supported_change_dates()
    dates = ds if tier == "thorough" else sorted({datetime.date(2015, 1, 1), datetime.date(2019, 1, 1), datetime.date(2023, 1, 1),
                                                  datetime.date(2024, 1, 1), ds[int(r.integers(0, len(ds)))]})
    items = [dict(date=str(d), k=k, seed=seed) for d in dates for k in range(4 if tier == "quick" else 6)]
    # deterministic witnesses of the situations behind the known findings (so that every run meets them)
    items.append(dict(date="2023-07-01", k=0, seed=seed, witness=True))
    # historical dates (rules of the periods 1998-2014): every suffixed rule that is computable there
    old = [d for d in env.change_dates() if datetime.date(1998, 1, 1) <= d < datetime.date(2015, 1, 1)]
    hist = old if tier == "thorough" else sorted({datetime.date(2003, 1, 1), datetime.date(2007, 1, 1), datetime.date(2009, 7, 1),
                                                  datetime.date(2012, 1, 1), old[int(r.integers(0, len(old)))]})
    items += [dict(date=str(d), k=k, seed=seed, historical=True) for d in hist for k in range(2 if tier == "quick" else 3)]
    return items


def constant_within(values, ids):
    """index of a row whose value differs from the first member of its group, or -1"""
    first = {}
    for i, (v, g) in enumerate(zip(values, ids)):
        if g not in first:
            first[g] = v
        else:
            w = first[g]
            if not (v == w or (v != v and w != w)):
                return i
    return -1


def run_item(item):
    from vf import env, popgen
    from vf.core import rng_for

    d = datetime.date.fromisoformat(item["date"])
    rng = rng_for(item["seed"], PROPERTY, d.toordinal(), item["k"])
    params, functions = env.environment(d)
    df = popgen.population(rng, d, n_hh=12, params=params, heterogeneous=True,
                           archetypes=["family_m", "family_u", "patchwork", "couple_m", "couple_u", "single_parent",
                                       "big_family", "pens_couple", "mixed_age_couple", "selfsufficient_kids", "three_gen", "adult_child"])
    if item.get("witness"):
        df = popgen.population(rng, d, n_hh=6, params=params, heterogeneous=True, archetypes=["family_m", "single_parent", "family_u"], cycle=True)
        # one partner of every couple has drawn Elterngeld for 12 months, the other for none; members differ
        # in the previous-year Buergergeld flag; single parents carry the single-parent flag
        partnered = df["p_id_einstandspartner"].to_numpy() >= 0
        first = partnered & (df["p_id"].to_numpy() < df["p_id_einstandspartner"].to_numpy())
        df["monate_elterngeldbezug"] = np.where(first | df["alleinerz"].to_numpy(), 12, 0)
        df["bürgerg_bezug_vorj"] = np.arange(len(df)) % 2 == 0
    if item["k"] % 2 == 0:
        # large, sparse ids (derived ids such as hh_id * 100 then exceed 10**5); rows stay shuffled / interleaved
        pm = popgen.random_injective(rng, df["p_id"].tolist(), 50000)
        hm = popgen.random_injective(rng, sorted(df["hh_id"].unique().tolist()), 15000)
        df = popgen.relabel(df, pm, {h: v + 1000 for h, v in hm.items()})
    df = df.iloc[rng.permutation(len(df))].reset_index(drop=True)
    TARGETS = None
    if item.get("historical"):
        if item["k"] >= 1:  # low earners: caps and allowances are not binding, so individual amounts stay visible
            for c in ("bruttolohn_m", "eink_selbst_m", "eink_vermietung_m", "kapitaleink_brutto_m"):
                df[c] = (df[c] * [0.0, 0.3, 0.12][item["k"] % 3]).round(2) if item["k"] % 3 else df[c]
        df = popgen.historical_supplement(df, d, rng)
        cand = [n for n in functions if level_of(n) and not n.endswith("_id")]
        TARGETS = env.feasible_targets(functions, list(df.columns), data=df, params=params,
                                       candidates=[*env.DEFAULT_TARGETS, *cand, "zu_verst_eink_y_sn", "vorsorgeaufw_y_sn"])
    dict_input = item["k"] % 4 == 2 and not item.get("historical") and not item.get("witness")
    if dict_input:
        # data as a dict of Series: household id and household-level columns carry the labels of another table (a
        # permutation of the person-level labels).  Rows are positions: groups are the caller's positional ids.
        import pandas as pd

        nodes, roots, dag, fn = env.graph(functions, list(df.columns))
        lab_p, lab_h = np.arange(len(df)), rng.permutation(len(df))
        data = {c: pd.Series(df[c].to_numpy(), index=lab_h if (c == "hh_id" or c.endswith("_hh")) else lab_p) for c in df.columns}
        out = env.simulate(data, params, functions, nodes, rounding=False)
        T = out.reset_index(drop=True).copy()
        for c in df.columns:
            if c not in T.columns:
                T[c] = df[c].to_numpy()
    else:
        T, nodes, roots, dag, fn = env.trace(df, params, functions, TARGETS, rounding=bool(item["k"] % 2))
    res = dict(date=item["date"], pop=popgen.digest(df), violations=[], suffixed_nodes=0, groups_checked=0,
               propagated=0, multi_member_groups={}, nodes=[], dict_input=int(dict_input))
    bad_nodes = {}
    for t in nodes:
        lvl = level_of(t)
        if lvl is None or t.endswith("_id") or f"{lvl}_id" not in T.columns:
            continue
        ids = T[f"{lvl}_id"].tolist()
        res["suffixed_nodes"] += 1
        res["groups_checked"] += len(set(ids))
        res["multi_member_groups"][lvl] = sum(1 for g in set(ids) if ids.count(g) > 1)
        res["nodes"].append(t)
        i = constant_within(T[t].tolist(), ids)
        if i < 0:
            continue
        bad_nodes[t] = i
        parents = [p for p in dag.predecessors(t) if not p.endswith("_params")]
        same_level_bad = [p for p in parents if p in bad_nodes and level_of(p) == lvl]
        if same_level_bad:
            res["propagated"] += 1
            continue
        # every group in which the node is not constant contributes its varying arguments
        col = T[t].tolist()
        by_group = {}
        for j, x in enumerate(ids):
            by_group.setdefault(x, []).append(j)
        seen_args = set()
        for g, members in by_group.items():
            if len({repr(col[j]) for j in members}) <= 1:
                continue
            offending = [p for p in parents if p in T.columns and not p.endswith("_id")
                         and len({repr(T[p].iloc[j]) for j in members}) > 1]
            vals = [T[t].iloc[j].item() if hasattr(T[t].iloc[j], "item") else T[t].iloc[j] for j in members]
            for p in offending or ["?"]:
                if p in seen_args:
                    continue
                seen_args.add(p)
                res["violations"].append(dict(
                    key=f"{t}:{p}",
                    what=f"{t} takes the values {vals} within {lvl} {g} (persons {T['p_id'].iloc[members].tolist()}): "
                         f"its argument {p} varies among the members "
                         f"({[T[p].iloc[j].item() if hasattr(T[p].iloc[j], 'item') else T[p].iloc[j] for j in members] if p in T.columns else ''})",
                    date=item["date"]))
    if item["k"] % 2 == 1 and not item.get("second_pass"):
        # the same persons once more in this process, but every second child of a family unit now lives in
        # another (new) household: units must be rebuilt from the new households, columns stay constant per group
        df2 = df.copy()
        kids = np.where((df2["p_id_elternteil_1"].to_numpy() >= 0) & (df2["alter"].to_numpy() < 25)
                        & (df2["p_id_einstandspartner"].to_numpy() < 0))[0][::2]
        if len(kids):
            new_hh = int(df2["hh_id"].max()) + 1 + np.arange(len(kids))
            df2.loc[kids, "hh_id"] = new_hh
            for c in [c for c in df2.columns if c.endswith("_hh")]:
                df2.loc[kids, c] = df2[c].iloc[kids].to_numpy()  # own household: any value is constant there
            df2["eigenbedarf_gedeckt"] = df2["eigenbedarf_gedeckt"] & ~df2.index.isin(kids)
            df2["alleinerz"] = False
            T2, nodes2, _, dag2, _ = env.trace(df2, params, functions, TARGETS, rounding=bool(item["k"] % 2))
            res["second_pass_runs"] = 1
            for t in nodes2:
                lvl = level_of(t)
                if lvl is None or t.endswith("_id") or f"{lvl}_id" not in T2.columns:
                    continue
                ids2 = T2[f"{lvl}_id"].tolist()
                res["suffixed_nodes"] += 1
                i2 = constant_within(T2[t].tolist(), ids2)
                if i2 >= 0 and not any(level_of(p_) == lvl and constant_within(T2[p_].tolist(), ids2) >= 0
                                        for p_ in dag2.predecessors(t) if p_ in T2.columns and not p_.endswith("_id")):
                    vary = [p_ for p_ in dag2.predecessors(t) if p_ in T2.columns and not p_.endswith("_params")
                            and constant_within(T2[p_].tolist(), ids2) >= 0]
                    for p_ in vary or ["?"]:
                        key = f"{t}:{p_}"
                        if not any(v["key"] == key for v in res["violations"]):
                            res["violations"].append(dict(key=key, what=f"{t} is not constant within {lvl} {ids2[i2]} after children moved to other "
                                                                           f"households (second simulation in the same process); varying argument {p_}", date=item["date"]))
            # units never span households
            for lvl in ("fg", "bg", "wthh"):
                if f"{lvl}_id" in T2.columns and (T2.groupby(f"{lvl}_id")["hh_id"].nunique() > 1).any():
                    res["violations"].append(dict(key=f"{lvl}_id:spans_households", what=f"{lvl}_id spans several households in the second simulation "
                                                                                        f"of the same persons with changed households", date=item["date"]))
    res["sample"] = dict(date=item["date"], population=popgen.describe(df))
    return res


def summarize(results, tier, seed):
    ok = [r for r in results if "_harness_error" not in r]
    viol = [dict(key=v["key"], what=v["what"], witness=v, item=r["_item"]) for r in ok for v in r["violations"]]
    multi = {}
    for r in ok:
        for k, v in r["multi_member_groups"].items():
            multi[k] = multi.get(k, 0) + v
    inconclusive = [f"no multi-member group at level {l} observed" for l in ("hh", "fg", "bg", "eg", "ehe", "sn", "wthh") if not multi.get(l)]
    cov = dict(
        evaluations=sum(r["suffixed_nodes"] for r in ok),
        distinct_nontrivial=len({(r["date"], n) for r in ok for n in r["nodes"]}),
        rule="evaluation = one suffixed function node of one all-nodes trace checked for constancy within the groups of "
             "its level; distinct = (date, node); non-trivial because every population has multi-member groups at every level",
        groups_checked=sum(r["groups_checked"] for r in ok), multi_member_groups_by_level=multi,
        propagated_not_reported=sum(r["propagated"] for r in ok),
        populations=len({r["pop"] for r in ok}), dates=sorted({r["date"] for r in ok}),
        runs_with_dict_of_series_input_and_foreign_household_labels=sum(r.get("dict_input", 0) for r in ok),
        historical_dates=sorted({r["date"] for r in ok if r["_item"].get("historical")}),
        suffixed_nodes_at_historical_dates=sum(r["suffixed_nodes"] for r in ok if r["_item"].get("historical")),
        second_simulations_with_changed_households=sum(r.get("second_pass_runs", 0) for r in ok),
        samples=[r["sample"] for r in ok[:2]],
    )
    return dict(coverage=cov, violations=viol, inconclusive=inconclusive,
                assumptions=["location inputs wohnort_ost and mietstufe are constant per household (a household lives in one place)"])

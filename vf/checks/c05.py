"""C05 - supplying a computed column as data is equivalent to computing it, and is announced.

Monitor: differential runs.  Run 1 = all nodes; run 2 = data + {n: run1[n]} with every other
node requested.  Every other node must be bit-identical, a FunctionsAndColumnsOverlapWarning
naming n must be emitted, and the call must not raise.  Variants: n supplied in a lossless
other dtype (float for int, 0/1 int for bool), and pairs of nodes supplied together."""
from __future__ import annotations

import datetime
import warnings

import numpy as np

PROPERTY = "C05"
LEVEL = "exploration"


def plan(tier, seed):
    from vf import env
    from vf.core import rng_for

    ds = env.supported_change_dates()
    r = rng_for(seed, PROPERTY, 5)
    if tier == "quick":
        dates = sorted({datetime.date(2018, 1, 1), datetime.date(2023, 1, 1), ds[int(r.integers(0, len(ds)))]})
        chunks, pops = 16, 1
    else:
        dates, chunks, pops = ds, 8, 2
    items = [dict(date=str(d), k=k, chunk=c, chunks=chunks, seed=seed, tier=tier)
             for d in dates for k in range(pops) for c in range(chunks)]
    hist = [datetime.date(2010, 7, 1)] if tier == "quick" else [datetime.date(y, 7, 1) for y in range(1998, 2015, 2)]
    items += [dict(date=str(d), k=0, chunk=c, chunks=4, seed=seed, tier=tier, historical=True) for d in hist for c in range(4)]
    return items


def _same(a, b):
    if a.dtype != b.dtype:
        return False
    if a.dtype.kind == "f":
        return bool(np.all((a == b) | (np.isnan(a) & np.isnan(b))))
    return bool(np.all(a == b))


def run_item(item):
    from _gettsim.interface import FunctionsAndColumnsOverlapWarning
    from vf import env, popgen
    from vf.core import rng_for

    d = datetime.date.fromisoformat(item["date"])
    prng = rng_for(item["seed"], PROPERTY, d.toordinal(), item["k"])
    rng = rng_for(item["seed"], PROPERTY, d.toordinal(), item["k"], item["chunk"])
    params, functions = env.environment(d)
    df = popgen.population(prng, d, n_hh=7, params=params)
    df = df.iloc[prng.permutation(len(df))].reset_index(drop=True)
    TARGETS = None
    if item.get("historical"):
        df = popgen.historical_supplement(df, d)
        TARGETS = env.feasible_targets(functions, list(df.columns), data=df, params=params, candidates=env.HIST_CANDIDATES)
    S0, nodes, roots, dag, fn = env.trace(df, params, functions, TARGETS)
    kinds = env.classify(fn)
    res = dict(date=item["date"], pop=popgen.digest(df), runs=0, violations=[], supplied=[],
               columns_compared=0, variants={})

    def viol(key, what, **kw):
        res["violations"].append(dict(key=key, what=what, **kw))

    def invalid_as_input(ns):
        """A computed group-level column that is not constant within its groups (the known C15 findings) is not valid input
        once the matching id is a data column too: GETTSIM rightly rejects it.  Such combinations are not C05's business."""
        from vf.checks.c15 import constant_within, level_of

        for n_ in ns:
            lvl = level_of(n_)
            if lvl and not n_.endswith("_id") and (f"{lvl}_id" in ns or f"{lvl}_id" in df.columns) and f"{lvl}_id" in S0.columns:
                if constant_within(S0[n_].tolist(), S0[f"{lvl}_id"].tolist()) >= 0:
                    return n_
        return None

    def supply(ns, variant):
        bad = invalid_as_input(ns)
        while bad is not None:
            res["skipped_not_constant_within_group"] = res.get("skipped_not_constant_within_group", 0) + 1
            if variant != "many":
                return
            ns = [x for x in ns if x != bad]
            bad = invalid_as_input(ns)
        data = df.copy()
        for n_ in ns:
            col = S0[n_].to_numpy()
            if variant == "other_dtype":
                if col.dtype.kind == "i":
                    col = col.astype(float)
                elif col.dtype.kind == "b":
                    col = col.astype(np.int64)
                else:
                    return
            data[n_] = col
        targets = [t for t in nodes if t not in ns]
        label = "+".join(ns)
        try:
            with warnings.catch_warnings(record=True) as w:
                warnings.simplefilter("always")
                out = env.compute_taxes_and_transfers(data, params, functions, targets=targets)
        except Exception as e:  # noqa: BLE001
            viol(f"{label}:exception:{variant}",
                 f"supplying computed column(s) {ns} ({variant}, kind {[kinds[x] for x in ns]}) raises "
                 f"{type(e).__name__}: {str(e)[:200]}", supplied=ns)
            return
        res["runs"] += 1
        res["variants"][variant] = res["variants"].get(variant, 0) + 1
        res["supplied"].append((variant, label))
        warned = [x for x in w if issubclass(x.category, FunctionsAndColumnsOverlapWarning)]
        must_name = [n_ for n_ in ns if kinds[n_] != "timeconv"]  # derived time-unit nodes are not rules:
        # they are simply not created when the name is a data column (time_conversion.py), nothing is overridden
        text = "\n".join(str(x.message) for x in warned)
        unnamed = [n_ for n_ in must_name if f'"{n_}"' not in text]
        if must_name and (not warned or unnamed):
            viol(f"{kinds[unnamed[0] if unnamed else ns[0]]}:no_warning",
                 f"no FunctionsAndColumnsOverlapWarning naming {unnamed or ns} when overriding {len(ns)} node(s) ({variant})", supplied=ns)
        if variant == "other_dtype" and not any("converted" in str(x.message) for x in w):
            viol("conversion:no_warning", f"column {ns} was converted to its internal type without a warning", supplied=ns)
        for t in targets:
            res["columns_compared"] += 1
            a, b = S0[t].to_numpy(), out[t].to_numpy()
            if not _same(a, b):
                if a.dtype != b.dtype:
                    detail = f"dtype {a.dtype} -> {b.dtype}"
                else:
                    i = int(np.argmax(~((a == b) | ((a != a) & (b != b)))))
                    detail = f"row {i}: computed {a[i]!r}, after supplying {b[i]!r}"
                desc = [p for p in dag.successors(ns[0])] if ns[0] in dag else []
                viol(f"{label}->{t}:{variant}",
                     f"supplying {ns} ({variant}) with its own computed values changes {t} "
                     f"({'direct child' if t in desc else 'not a child'}): {detail}", supplied=ns, changed=t)
                break  # report the first changed node per supplied column

    mine = [t for i, t in enumerate(nodes) if i % item["chunks"] == item["chunk"]]
    if item["tier"] == "quick":
        # prefer variety of node kinds within the quick budget
        mine = [mine[i] for i in rng.choice(len(mine), min(len(mine), 12), replace=False)]
    if item["chunk"] == 0:
        mine = list(dict.fromkeys([*mine, *[g for g in ("fg_id", "bg_id", "eg_id", "ehe_id", "sn_id", "wthh_id") if g in nodes]]))
    for n_ in mine:
        supply([n_], "same_dtype")
        if S0[n_].dtype.kind in "ib":
            supply([n_], "other_dtype")
    for _ in range(2):
        if len(nodes) < 2:
            break
        a, b = (nodes[i] for i in rng.choice(len(nodes), 2, replace=False))
        supply([a, b], "pair")
    # a data set that already carries many computed columns: each of them is used and each is announced
    if item["chunk"] % 2 == 0 and len(nodes) > 30:
        many = [nodes[i] for i in rng.choice(len(nodes), int(rng.integers(12, 30)), replace=False)]
        supply(many, "many")
    # data as a dict of Series that carry arbitrary index labels; the supplied column is taken from the result
    # frame (fresh RangeIndex) - columns are positional, labels must not matter
    import pandas as pd

    labels = rng.permutation(len(df))
    base_dict = {c: pd.Series(df[c].to_numpy(), index=labels, name=c) for c in df.columns}
    for n_ in [mine[i] for i in rng.choice(len(mine), min(3, len(mine)), replace=False)] if mine else []:
        data = dict(base_dict)
        data[n_] = pd.Series(S0[n_].to_numpy(), name=n_)
        targets = [t for t in nodes if t != n_][:: max(1, len(nodes) // 40)]
        try:
            with warnings.catch_warnings():
                warnings.simplefilter("ignore")
                out = env.compute_taxes_and_transfers(data, params, functions, targets=targets)
        except Exception as e:  # noqa: BLE001
            viol(f"dict_input:exception", f"dict of Series (shuffled index labels) with {n_} supplied raises {type(e).__name__}: {str(e)[:160]}")
            continue
        res["runs"] += 1
        res["variants"]["dict_misaligned_index"] = res["variants"].get("dict_misaligned_index", 0) + 1
        res["supplied"].append(("dict_misaligned_index", n_))
        if len(out) != len(df):
            viol("dict_input:rows", f"dict of Series input: {len(out)} result rows for {len(df)} input rows")
            continue
        for t in targets:
            res["columns_compared"] += 1
            if not _same(S0[t].to_numpy(), out[t].to_numpy()):
                viol(f"dict_input:{n_}->value", f"data passed as dict of Series with shuffled index labels and {n_} supplied from the result frame: "
                                               f"{t} differs from the computed run (columns matched by label instead of position)")
                break
    res["sample"] = dict(date=item["date"], population=popgen.describe(df), supplied=res["supplied"][:8])
    return res


def summarize(results, tier, seed):
    ok = [r for r in results if "_harness_error" not in r]
    viol = [dict(key=v["key"], what=v["what"], witness=v, item=r["_item"]) for r in ok for v in r["violations"]]
    cases = {(r["pop"], r["date"], *s) for r in ok for s in r["supplied"]}
    variants = {}
    for r in ok:
        for k, v in r["variants"].items():
            variants[k] = variants.get(k, 0) + v
    inconclusive = [f"no run of variant {v}" for v in ("same_dtype", "other_dtype", "pair") if not variants.get(v)]
    cov = dict(
        evaluations=sum(r["runs"] for r in ok),
        distinct_nontrivial=len(cases),
        rule="evaluation = one run with a computed node supplied as data column and all other nodes requested, "
             "compared bitwise with the all-nodes run; distinct = (population, date, variant, supplied node(s))",
        runs_by_variant=variants,
        combinations_skipped_because_a_computed_group_column_is_not_constant=sum(r.get("skipped_not_constant_within_group", 0) for r in ok),
        distinct_nodes_supplied=len({s[1] for r in ok for s in r["supplied"]}),
        columns_compared=sum(r["columns_compared"] for r in ok),
        dates=sorted({r["date"] for r in ok}),
        samples=[r["sample"] for r in ok[:2]],
    )
    return dict(coverage=cov, violations=viol, inconclusive=inconclusive,
                assumptions=["the supplied column itself is not requested as a target (the code rejects that loudly)"])

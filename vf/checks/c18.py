"""C18 - statutory schedules are well-formed and evaluated exactly.

Monitors:
 A. per (schedule, date at which it changes, 1984-): structure of the production arrays (thresholds
    strictly increasing, -inf / +inf ends, consistent shapes) and evaluation of the real
    piecewise_polynomial on them - at every threshold, +-1 ulp, +-1 cent, interior points of every
    piece, random and huge arguments - against vf.refmodels.Schedule: exact Fraction arithmetic on
    the pieces parsed independently from the raw YAML (deviations, progression factor, generated
    intercepts), right-continuous at thresholds; also with a rates multiplier;
 B. a recording post-condition on piecewise_polynomial during system runs: every real call is
    re-evaluated exactly (schedule identified through the identity of the thresholds array; inline
    schedules built by rules are evaluated exactly from the arrays passed);
 C. shape of the income-tax schedule (zero up to the allowance, continuous, non-decreasing, convex,
    marginal rate <= top rate) and of the solidarity surcharge (continuous, non-decreasing,
    <= nominal rate x tax + 1 cent) on a dense grid plus all thresholds +-1 ulp."""
from __future__ import annotations

import datetime
import math
from fractions import Fraction

import numpy as np

PROPERTY = "C18"
LEVEL = "exploration"
EPS = np.finfo(float).eps


def schedules():
    """[(group, name)] of every piecewise parameter in the raw YAML."""
    from vf import env

    out = []
    for g in env.INTERNAL_PARAMS_GROUPS:
        raw = env.raw_yaml(g)
        for p, v in raw.items():
            if isinstance(v, dict) and str(v.get("type", "")).startswith("piecewise"):
                out.append((g, p))
    return out


def plan(tier, seed):
    from vf import env
    from vf.core import rng_for
    from vf.refmodels import ParamsRef

    r = rng_for(seed, PROPERTY, 0)
    ref = ParamsRef(env.raw_yaml)
    items = []
    lo = datetime.date(1984, 1, 1)
    for g, p in schedules():
        ds = sorted(d for d, _ in ref.entries(g, p))
        cand = sorted({max(d, lo) for d in ds} | {d - datetime.timedelta(days=1) for d in ds if d > lo})
        cand = [d for d in cand if d >= min(ds)]
        if tier == "quick" and len(cand) > 8:
            keep = {cand[0], cand[-1], cand[-2]} | {cand[int(i)] for i in r.choice(len(cand), 5, replace=False)}
            cand = sorted(keep)
        for d in cand:
            items.append(dict(kind="schedule", group=g, name=p, date=str(d), seed=seed, tier=tier))
    sd = env.supported_change_dates()
    sysd = sd if tier == "thorough" else [datetime.date(2016, 1, 1), datetime.date(2023, 1, 1)]
    for d in sysd:
        items.append(dict(kind="system", date=str(d), k=0, seed=seed))
    items.append(dict(kind="sequence", seed=seed))
    tax_dates = sorted({max(d, lo) for d, _ in ref.entries("eink_st", "eink_st_tarif")} | {d for d, _ in ref.entries("soli_st", "soli_st") if d >= lo})
    # every date at which the income-tax schedule or the surcharge changes, in both tiers (a shape item costs < 1 s; one
    # dated entry with hand-written intercepts is enough to break continuity for two years only)
    for d in tax_dates:
        items.append(dict(kind="shape", date=str(d), seed=seed, tier=tier))
    return items


def worker_init():
    pass


def run_item(item):
    return {"schedule": _schedule, "system": _system, "shape": _shape, "sequence": _sequence}[item["kind"]](item)


def _sequence(item):
    """Every version of every schedule, set up one after the other in ONE process (ascending, then descending
    dates): the arrays of each environment must match the file, whatever was parsed before."""
    from _gettsim.policy_environment import set_up_policy_environment
    from vf import env
    from vf.refmodels import ABSENT, ParamsRef, Schedule

    ref = ParamsRef(env.raw_yaml)
    res = dict(kind="sequence", violations=[], points=0, setups=0, compared=0, date="sequence")
    lo = datetime.date(1984, 1, 1)
    dates = set()
    for g, p in schedules():
        dates |= {max(d, lo) for d, _ in ref.entries(g, p)}
    dates = sorted(dates)
    for direction, ds in (("ascending", dates), ("descending", dates[::-1])):
        for d in ds:
            params, _ = set_up_policy_environment(d)
            res["setups"] += 1
            for g, p in schedules():
                raw = ref.value(g, p, d)
                prod = params[g].get(p)
                if raw is ABSENT or not isinstance(prod, dict) or "thresholds" not in prod:
                    continue
                s = Schedule(raw, f"{g}/{p}")
                res["compared"] += 1
                want = np.array([float(x) for x in s.intercepts])
                got = np.asarray(prod["intercepts_at_lower_thresholds"], dtype=float)
                if got.shape != want.shape or not np.all(np.abs(got - want) <= 1e-9 * np.maximum(1.0, np.abs(want))):
                    res["violations"].append(dict(key=f"{g}/{p}:depends_on_earlier_set_ups",
                                                  what=f"{g}/{p} at {d} (set-ups in {direction} date order in one process): intercepts {got.tolist()} "
                                                       f"differ from the schedule in the file {want.tolist()}", date=str(d)))
                    return res
    return res


def exact_from_arrays(x, thresholds, rates, intercepts, mult=None):
    """Exact value of the schedule described by production-style arrays (right-continuous)."""
    th = [float(t) for t in thresholds]
    X = Fraction(x)
    b = 0
    for i in range(len(th) - 1):
        if not math.isinf(th[i]) and X >= Fraction(th[i]):
            b = i
    rates = np.asarray(rates, dtype=float)
    deg = rates.shape[0]
    if mult is None:
        out = Fraction(float(intercepts[b]))
        m = Fraction(1)
    else:
        m = Fraction(float(mult))
        out = Fraction(float(intercepts[0]))
        for i in range(1, b):
            inc = Fraction(th[i + 1]) - Fraction(th[i])
            out += sum(m * Fraction(float(rates[p][i])) * inc ** (p + 1) for p in range(deg))
    if b > 0:
        dx = X - Fraction(th[b])
        out += sum(m * Fraction(float(rates[p][b])) * dx ** (p + 1) for p in range(deg))
    return out


def close(got, want, scale_extra=0.0):
    w = float(want)
    if math.isnan(got):
        return False
    tol = 16 * EPS * (abs(w) + 1.0 + scale_extra)
    return abs(got - w) <= tol


def _points(rng, th, n_random):
    pts = []
    fin = [t for t in th if not math.isinf(t)]
    for t in fin:
        pts += [t, np.nextafter(t, np.inf), np.nextafter(t, -np.inf), t + 0.01, t - 0.01, t + 1, t - 1]
    edges = [fin[0] - 1000.0] + fin + [fin[-1] + 100000.0] if fin else [-1000.0, 1000.0]
    for a, b in zip(edges, edges[1:]):
        for f in (0.25, 0.5, 0.75, 0.999999):
            pts.append(a + f * (b - a))
    lo, hi = (fin[0] - 5000, fin[-1] * 2 + 5000) if fin else (-1e5, 1e5)
    pts += list(rng.uniform(lo, hi, n_random))
    pts += [0.0, -1.0, 1e7, 1e9, -1e9]
    return [float(p) for p in pts]


def _schedule(item):
    from _gettsim.piecewise_functions import piecewise_polynomial
    from vf import env
    from vf.core import crc, rng_for
    from vf.refmodels import ABSENT, ParamsRef, Schedule

    d = datetime.date.fromisoformat(item["date"])
    rng = rng_for(item["seed"], PROPERTY, d.toordinal(), crc(item["group"] + item["name"]))
    res = dict(kind="schedule", schedule=f"{item['group']}/{item['name']}", date=item["date"], violations=[], points=0,
               status="", version=None, discontinuities=[])

    def viol(key, what):
        res["violations"].append(dict(key=key, what=what, date=item["date"]))

    ref = ParamsRef(env.raw_yaml)
    raw = ref.value(item["group"], item["name"], d)
    if raw is ABSENT:
        res["status"] = "absent"
        return res
    params, _ = env.environment(d)
    prod = params[item["group"]].get(item["name"])
    name = res["schedule"]
    if not isinstance(prod, dict) or "thresholds" not in prod:
        res["status"] = "not_a_schedule_in_environment"  # overwritten by a year-derived value
        return res
    try:
        s = Schedule(raw, name)
    except Exception as e:  # noqa: BLE001
        viol(f"{name}:reference_parse", f"{name} at {item['date']}: the raw entry cannot be parsed as a schedule: {e}")
        return res
    for b in s.well_formed():
        viol(f"{name}:malformed", f"{name} at {item['date']}: {b}")
    th, rates, ic = prod["thresholds"], prod["rates"], prod["intercepts_at_lower_thresholds"]
    res["version"] = repr((th.tolist(), rates.tolist(), ic.tolist()))
    if not (th[0] == -np.inf and th[-1] == np.inf):
        viol(f"{name}:malformed", f"{name} at {item['date']}: thresholds do not span the real line: {th.tolist()}")
    if not np.all(np.diff(th) > 0):
        viol(f"{name}:malformed", f"{name} at {item['date']}: thresholds not strictly increasing: {th.tolist()}")
    if rates.ndim != 2 or rates.shape[1] != len(th) - 1 or len(ic) != len(th) - 1:
        viol(f"{name}:malformed", f"{name}: inconsistent shapes thresholds {th.shape}, rates {rates.shape}, intercepts {ic.shape}")
        return res
    n_random = 150 if item["tier"] == "quick" else 2000
    scale = float(np.max(np.abs(ic[np.isfinite(ic)]))) if len(ic) else 0.0
    for x in _points(rng, th.tolist(), n_random):
        res["points"] += 1
        got = float(piecewise_polynomial(x, thresholds=th, rates=rates, intercepts_at_lower_thresholds=ic))
        want = s(x)
        extra = scale + abs(x) * float(np.max(np.abs(rates)))
        if not close(got, want, extra):
            viol(f"{name}:evaluation", f"{name} at {item['date']}: piecewise_polynomial({x!r}) = {got!r}, exact value of the schedule in the "
                                       f"parameter file = {float(want)!r} (piece {s.piece_of(Fraction(x))})")
            break
    # with a rates multiplier (as used for the ALG II income allowance)
    snap = (th.copy(), rates.copy(), ic.copy())
    for mult in (0.5, 0.8312, 1.0):
        for x in _points(rng, th.tolist(), 20)[:60]:
            res["points"] += 1
            try:
                got = float(piecewise_polynomial(x, thresholds=th, rates=rates, intercepts_at_lower_thresholds=ic, rates_multiplier=mult))
            except Exception as e:  # noqa: BLE001
                viol(f"{name}:evaluation_multiplier_raises", f"{name} at {item['date']}: piecewise_polynomial({x!r}, rates_multiplier={mult}) raises {type(e).__name__}: {str(e)[:120]}")
                break
            if not (np.array_equal(th, snap[0]) and np.array_equal(rates, snap[1]) and np.array_equal(ic, snap[2])):
                viol("piecewise_polynomial:modifies_its_arguments", f"{name} at {item['date']}: evaluating the schedule (rates_multiplier={mult}) changed the "
                                                                 f"parameter arrays it was given: intercepts {snap[2].tolist()} -> {ic.tolist()}")
                ic[...] = snap[2]
                break
            want = exact_from_arrays(x, th, rates, ic, mult)
            if not close(got, want, scale + abs(x) * float(np.max(np.abs(rates)))):
                viol(f"{name}:evaluation_multiplier", f"{name} at {item['date']}: piecewise_polynomial({x!r}, rates_multiplier={mult}) = {got!r}, exact {float(want)!r}")
                break
    # record discontinuities (information: only step tables are expected to jump)
    for i in range(1, len(s.lower)):
        left = s._piece_value(i - 1, s.lower[i])
        if left != s.intercepts[i] and abs(float(left - s.intercepts[i])) > 1e-9:
            res["discontinuities"].append((float(s.lower[i]), float(s.intercepts[i] - left)))
    res["status"] = "ok"
    res["sample"] = dict(schedule=name, date=item["date"], thresholds=th.tolist()[:6], pieces=len(s.lower), degree=s.degree,
                         generated_intercepts=s.generated)
    return res


_PP = dict(calls=0, failures=[], by_schedule={})


def _install_pp_contract(idmap):
    """Wrap piecewise_polynomial everywhere with a recording post-condition."""
    import sys

    import icontract

    from _gettsim import piecewise_functions as pf
    from vf.contracts import ContractBroken

    orig = getattr(pf.piecewise_polynomial, "__wrapped_original__", pf.piecewise_polynomial)

    def evaluation_is_exact(x, thresholds, rates, intercepts_at_lower_thresholds, result, rates_multiplier=None):
        _PP["calls"] += 1
        try:
            sched = idmap.get(id(thresholds))
            _PP["by_schedule"][sched[0] if sched else "inline"] = _PP["by_schedule"].get(sched[0] if sched else "inline", 0) + 1
            xv = float(x)
            if sched is None and xv < float(thresholds[0]):
                # an inline table built by a rule that does not cover the real line, argument below its domain
                _PP["by_schedule"]["inline_out_of_domain"] = _PP["by_schedule"].get("inline_out_of_domain", 0) + 1
                return True
            if sched is not None and rates_multiplier is None:
                want = sched[1](xv)
            else:
                want = exact_from_arrays(xv, thresholds, rates, intercepts_at_lower_thresholds, rates_multiplier)
            r = np.asarray(rates, dtype=float)
            extra = float(np.max(np.abs(np.asarray(intercepts_at_lower_thresholds, dtype=float)))) + abs(xv) * float(np.max(np.abs(r)))
            if not close(float(result), want, extra) and len(_PP["failures"]) < 20:
                _PP["failures"].append(dict(schedule=sched[0] if sched else "inline", x=xv, got=float(result), want=float(want)))
        except Exception as e:  # noqa: BLE001
            if len(_PP["failures"]) < 20:
                _PP["failures"].append(dict(schedule="?", error=f"{type(e).__name__}: {e}"))
        return True

    wrapped = icontract.ensure(evaluation_is_exact, error=ContractBroken)(orig)
    wrapped.__wrapped_original__ = orig
    n = 0
    for mn, mod in list(sys.modules.items()):
        if mn.startswith("_gettsim") and mod is not None:
            for k, v in list(vars(mod).items()):
                if v is orig or getattr(v, "__wrapped_original__", None) is orig:
                    setattr(mod, k, wrapped)
                    n += 1
    return n


def _system(item):
    import _gettsim.functions  # noqa: F401
    from vf import env, popgen
    from vf.core import rng_for
    from vf.refmodels import ABSENT, ParamsRef, Schedule

    d = datetime.date.fromisoformat(item["date"])
    rng = rng_for(item["seed"], PROPERTY, d.toordinal(), 5)
    params, functions = env.environment(d)
    ref = ParamsRef(env.raw_yaml)
    idmap = {}
    for g, p in schedules():
        prod = params[g].get(p)
        raw = ref.value(g, p, d)
        if isinstance(prod, dict) and "thresholds" in prod and raw is not ABSENT:
            idmap[id(prod["thresholds"])] = (f"{g}/{p}", Schedule(raw, f"{g}/{p}"))
    bound = _install_pp_contract(idmap)
    _PP.update(calls=0, failures=[], by_schedule={})
    res = dict(kind="system", date=item["date"], violations=[], contract_evaluations=0, by_schedule={}, rebound=bound)
    df = popgen.population(rng, d, n_hh=25, params=params)
    # the environment hands the same array objects to the rules: pass `params` itself (no copy)
    env.simulate(df, params, functions, None)
    res["contract_evaluations"] = _PP["calls"]
    res["by_schedule"] = dict(_PP["by_schedule"])
    for f in _PP["failures"]:
        res["violations"].append(dict(key=f"{f.get('schedule')}:evaluation_in_system_run",
                                      what=f"during a simulation at {item['date']}: piecewise_polynomial on {f}", date=item["date"]))
    res["sample"] = dict(date=item["date"], calls=_PP["calls"], by_schedule=res["by_schedule"])
    return res


def _shape(item):
    from _gettsim.taxes.eink_st import _eink_st_tarif
    from _gettsim.taxes.soli_st import _soli_st_tarif
    from vf import env

    d = datetime.date.fromisoformat(item["date"])
    params, _ = env.environment(d)
    res = dict(kind="shape", date=item["date"], violations=[], points=0, checked=[])

    def viol(key, what):
        res["violations"].append(dict(key=key, what=what, date=item["date"]))

    def grid(th, top):
        fin = [t for t in th if np.isfinite(t)]
        step = 1.0
        g = list(np.arange(0.0, min(top, 120000.0) + step, step)) + list(np.arange(120000.0, top, 50.0))
        for t in fin:
            g += [t, np.nextafter(t, np.inf), np.nextafter(t, -np.inf), t - 1, t + 1]
        return np.array(sorted(set(float(x) for x in g if x >= -1)))

    # ---- income tax
    tar = params["eink_st"].get("eink_st_tarif")
    if isinstance(tar, dict) and "thresholds" in tar:
        th = tar["thresholds"]
        xs = grid(th, 400000.0)
        f = np.array([float(_eink_st_tarif(x, params["eink_st"])) for x in xs])
        res["points"] += len(xs)
        res["checked"].append("eink_st_tarif")
        top = float(np.max(tar["rates"][0]))
        allowance = float(th[1])
        below = xs <= allowance
        if np.any(f[below] != 0):
            i = int(np.argmax((f != 0) & below))
            viol("eink_st_tarif:nonzero_below_allowance", f"{item['date']}: tax({xs[i]!r}) = {f[i]!r} below the basic allowance {allowance}")
        dx = np.diff(xs)
        df_ = np.diff(f)
        big = dx >= 0.5
        slope = np.where(big, df_ / np.where(big, dx, 1), 0)
        jump = np.abs(df_) > top * dx + 1e-6
        if jump.any():
            i = int(np.argmax(jump))
            viol("eink_st_tarif:discontinuous", f"{item['date']}: tax jumps from {f[i]!r} at {xs[i]!r} to {f[i + 1]!r} at {xs[i + 1]!r}")
        if (df_ < -1e-7).any():
            i = int(np.argmin(df_))
            viol("eink_st_tarif:decreasing", f"{item['date']}: tax decreases from {f[i]!r} at {xs[i]!r} to {f[i + 1]!r} at {xs[i + 1]!r}")
        if (slope > top + 1e-6).any():
            i = int(np.argmax(slope))
            viol("eink_st_tarif:marginal_above_top", f"{item['date']}: marginal rate {slope[i]!r} at {xs[i]!r} exceeds the top rate {top}")
        # convexity on the integer grid (equal spacing)
        ints = np.arange(0.0, 120001.0)
        fi = np.array([float(_eink_st_tarif(x, params["eink_st"])) for x in ints[::1]])
        d2 = fi[2:] - 2 * fi[1:-1] + fi[:-2]
        res["points"] += len(ints)
        if (d2 < -1e-6).any():
            i = int(np.argmin(d2))
            viol("eink_st_tarif:not_convex", f"{item['date']}: second difference {d2[i]!r} at {ints[i + 1]!r} (marginal rate falls)")
    # ---- solidarity surcharge
    so = params["soli_st"].get("soli_st")
    if isinstance(so, dict) and "thresholds" in so:
        th = so["thresholds"]
        xs = grid(th, 60000.0)
        xs = xs[(xs <= 60000.0) & (xs >= 0.0)]
        f = np.array([float(_soli_st_tarif(x, params["soli_st"])) for x in xs])
        res["points"] += len(xs)
        res["checked"].append("soli_st")
        rate = float(so["rates"][0][-1])
        maxslope = float(np.max(so["rates"][0]))
        dx, df_ = np.diff(xs), np.diff(f)
        if (np.abs(df_) > maxslope * dx + 1e-6).any():
            i = int(np.argmax(np.abs(df_) - maxslope * dx))
            viol("soli_st:discontinuous", f"{item['date']}: surcharge jumps from {f[i]!r} at tax {xs[i]!r} to {f[i + 1]!r} at {xs[i + 1]!r}")
        if (df_ < -1e-9).any():
            i = int(np.argmin(df_))
            viol("soli_st:decreasing", f"{item['date']}: surcharge decreases between tax {xs[i]!r} and {xs[i + 1]!r}")
        over = f > rate * xs + 0.01
        if over.any():
            i = int(np.argmax(f - rate * xs))
            viol("soli_st:above_nominal_rate", f"{item['date']}: surcharge {f[i]!r} on tax {xs[i]!r} exceeds {rate} x tax by more than one cent")
    res["sample"] = dict(date=item["date"], checked=res["checked"], points=res["points"])
    return res


def summarize(results, tier, seed):
    ok = [r for r in results if "_harness_error" not in r]
    viol = [dict(key=v["key"], what=v["what"], witness=v, item=r["_item"]) for r in ok for v in r["violations"]]
    seq = [r for r in ok if r["kind"] == "sequence"]
    sch = [r for r in ok if r["kind"] == "schedule"]
    sysr = [r for r in ok if r["kind"] == "system"]
    shp = [r for r in ok if r["kind"] == "shape"]
    versions = {(r["schedule"], r["version"]) for r in sch if r["status"] == "ok"}
    bys = {}
    for r in sysr:
        for k, v in r["by_schedule"].items():
            bys[k] = bys.get(k, 0) + v
    inconclusive = []
    if sum(r["contract_evaluations"] for r in sysr) == 0:
        inconclusive.append("the post-condition on piecewise_polynomial was never evaluated in a system run")
    if len(versions) < 10:
        inconclusive.append("fewer than 10 distinct schedule versions evaluated")
    if not shp:
        inconclusive.append("no shape run")
    disc = sorted({(r["schedule"]) for r in sch if r["discontinuities"]})
    cov = dict(
        evaluations=sum(r["points"] for r in sch) + sum(r["points"] for r in shp) + sum(r["contract_evaluations"] for r in sysr),
        distinct_nontrivial=len(versions) + len(shp),
        rule="evaluation = one evaluation of the real piecewise_polynomial / tariff function compared with exact arithmetic "
             "or a shape condition; distinct non-trivial = distinct schedule versions (schedule, arrays) plus shape dates",
        schedules=sorted({r["schedule"] for r in sch}), schedule_dates=len(sch), distinct_schedule_versions=len(versions),
        status={s: sum(1 for r in sch if r["status"] == s) for s in {r["status"] for r in sch}},
        contract_evaluations_in_system_runs=sum(r["contract_evaluations"] for r in sysr), contract_calls_by_schedule=bys,
        shape_dates=[r["date"] for r in shp], schedules_with_jumps=disc,
        set_ups_in_one_process_sequence=sum(r["setups"] for r in seq), schedule_versions_compared_in_sequence=sum(r["compared"] for r in seq),
        samples=[r["sample"] for r in sch if r.get("sample")][:2] + [r["sample"] for r in sysr[:1]] + [r["sample"] for r in shp[:1]],
    )
    return dict(coverage=cov, violations=viol, inconclusive=inconclusive,
                assumptions=["each polynomial piece is decided from finitely many evaluations plus the observed coefficient arrays; tolerance 16 ulp of the magnitudes involved",
                             "coefficients are taken as the binary floats the YAML parser yields"])

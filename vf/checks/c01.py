"""C01 - results do not depend on the order of rows / index labels.

Monitor: metamorphic trace comparison.  The same population is simulated (all nodes of the
dependency graph) in its canonical order and under many row orders / index labellings; the
node-local comparator (vf.tracecmp) aligns persons by p_id and reports the first node whose
inputs agree but whose output differs, or whose ids induce another partition.
"""
from __future__ import annotations

import datetime

import numpy as np

PROPERTY = "C01"
LEVEL = "exploration"
WATCHDOG_S = {"quick": 1200, "thorough": 5400}


def _dates(tier, seed):
    from vf import env
    from vf.core import rng_for

    ds = env.supported_change_dates()
    if tier == "thorough":
        return ds
    r = rng_for(seed, PROPERTY, 999)
    fixed = [datetime.date(2015, 1, 1), datetime.date(2017, 7, 1), datetime.date(2021, 1, 1),
             datetime.date(2023, 7, 1)]
    extra = [ds[i] for i in r.choice(len(ds), 3, replace=False)]
    return sorted(set(fixed + extra))


def plan(tier, seed):
    items = []
    dates = _dates(tier, seed)
    k_pop = 6 if tier == "quick" else 16
    for d in dates:
        for k in range(k_pop):
            items.append(dict(date=str(d), k=k, seed=seed, n_hh=int(4 + (k % 4) * 3),
                              rotations=(k % 3 == 0)))
    # exhaustive part: every row order of a small population (one household of 4-5 persons)
    arch = ["patchwork", "family_m", "three_gen", "selfsufficient_kids", "single_parent", "family_u"]
    for i in range(2 if tier == "quick" else 12):
        items.append(dict(date=str(dates[(i * 7) % len(dates)]), k=1000 + i, seed=seed, n_hh=1, rotations=False,
                          all_orders=True, archetype=arch[i % len(arch)]))
    # historical dates: the computable part of the default targets
    hist = [datetime.date(2008, 7, 1)] if tier == "quick" else [datetime.date(y, 7, 1) for y in range(1998, 2015, 2)]
    for i, d in enumerate(hist):
        items.append(dict(date=str(d), k=3000 + i, seed=seed, n_hh=8, rotations=(tier != "quick"), historical=True))
    # size-dependent code paths: one population with more than 4096 rows (two orders only)
    for i in range(1 if tier == "quick" else 3):
        items.append(dict(date=str(dates[(3 + i * 5) % len(dates)]), k=2000 + i, seed=seed, n_hh=1450, rotations=False, large=True))
    return items


def _orders(rng, df, rotations, all_orders=False):
    n = len(df)
    if all_orders == "large":
        return [("identity+labels", np.arange(n)), ("random0", rng.permutation(n))]
    if all_orders:
        import itertools

        perms = list(itertools.permutations(range(n)))
        if len(perms) > 720:
            perms = [perms[i] for i in rng.choice(len(perms), 720, replace=False)]
        return [("identity+labels", np.arange(n))] + [(f"perm{i}", np.array(p)) for i, p in enumerate(perms[1:])]
    orders = [("identity+labels", np.arange(n))]
    orders.append(("reverse", np.arange(n)[::-1]))
    orders.append(("children_first", np.argsort(df["alter"].to_numpy(), kind="stable")))
    orders.append(("hh_desc", np.argsort(-df["hh_id"].to_numpy(), kind="stable")))
    for i in range(3):
        orders.append((f"random{i}", rng.permutation(n)))
    if rotations:
        for s in range(1, n):
            orders.append((f"rot{s}", np.roll(np.arange(n), -s)))
    return orders


def _labels(rng, n, style):
    if style == 0:
        return rng.permutation(n) if rng.random() < 0.5 else rng.permutation(n) * 3 + 7
    if style == 1:
        return np.array([f"r{rng.integers(0, 10**6)}" for _ in range(n)], dtype=object)
    if style == 2:
        return np.zeros(n, dtype=int)  # all labels equal (duplicates)
    return np.arange(n)[::-1]


def run_item(item):
    from vf import env, popgen, tracecmp
    from vf.core import rng_for

    d = datetime.date.fromisoformat(item["date"])
    rng = rng_for(item["seed"], PROPERTY, d.toordinal(), item["k"])
    params, functions = env.environment(d)
    if item.get("all_orders"):
        df = popgen.population(rng, d, n_hh=1, params=params, archetypes=[item["archetype"]])
        for _ in range(20):
            if 3 <= len(df) <= 5:
                break
            df = popgen.population(rng, d, n_hh=1, params=params, archetypes=[item["archetype"]])
        if len(df) > 6:
            df = popgen.population(rng, d, n_hh=1, params=params, archetypes=["family_m"])
    else:
        df = popgen.population(rng, d, n_hh=item["n_hh"], params=params)
    if item["k"] % 2 == 1:
        # large sparse ids: derived ids (hh_id * 100 ...) exceed 10**5 and rows of a group are not adjacent after permutation
        pm = popgen.random_injective(rng, df["p_id"].tolist(), 50000)
        hm = popgen.random_injective(rng, sorted(df["hh_id"].unique().tolist()), 15000)
        df = popgen.relabel(df, pm, {h: v + 1000 for h, v in hm.items()})
    TARGETS = None
    if item.get("historical"):
        df = popgen.historical_supplement(df, d)
        TARGETS = env.feasible_targets(functions, list(df.columns), data=df, params=params, candidates=env.HIST_CANDIDATES)
    base, nodes, roots, dag, fn = env.trace(df, params, functions, TARGETS)
    kinds = env.classify(fn)
    res = dict(date=item["date"], k=item["k"], persons=len(df), households=int(df.hh_id.nunique()),
               pop=popgen.digest(df), runs=0, nodes=len(nodes), nodes_compared=0, noise=0,
               amplified=[], violations=[], cases=[], float_noise_nodes=set())
    for li, (name, perm) in enumerate(_orders(rng, df, item["rotations"], "large" if item.get("large") else item.get("all_orders", False))):
        dfp = df.iloc[perm].copy()
        dfp.index = _labels(rng, len(df), li % 4)
        if li % 2 == 1:
            # the same values in dtypes that need the (lossless, announced) conversion to the internal type
            dfp["alter"] = dfp["alter"].astype(float)
            dfp["weiblich"] = dfp["weiblich"].astype(np.int64)
            dfp["geburtsjahr"] = dfp["geburtsjahr"].astype(np.int32)
            dfp["wohnfläche_hh"] = dfp["wohnfläche_hh"].astype(np.float32)
            dfp["mietstufe"] = dfp["mietstufe"].astype(float)
            res["runs_with_converted_columns"] = res.get("runs_with_converted_columns", 0) + 1
        try:
            tr, nodes2, _, _, _ = env.trace(dfp, params, functions, TARGETS)
        except Exception as e:  # noqa: BLE001
            res["violations"].append(dict(key=f"exception:{type(e).__name__}", order=name,
                                          what=f"permuted run raises {type(e).__name__}: {str(e)[:200]}"))
            continue
        res["runs"] += 1
        if len(tr) != len(df) or nodes2 != nodes:
            res["violations"].append(dict(key="shape", order=name, what="row count or node set differs"))
            continue
        c = tracecmp.compare(base, tr, nodes, dag, kinds)
        res["nodes_compared"] += c["compared"]
        res["noise"] += len(c["noise"])
        for w in c["noise"]:
            res["float_noise_nodes"].add(w["node"])
        res["amplified"] += [dict(order=name, **w) for w in c["amplified"][:2]]
        for v in c["violations"]:
            res["violations"].append(dict(
                key=f"{v['node']}:{'partition' if v['kind'] == 'partition' else 'value'}",
                order=name, perm=perm.tolist(),
                what=f"node {v['node']} differs under row order {name}: {v}", detail=v))
        nontrivial = name != "identity+labels" and (res["households"] >= 2 or item.get("all_orders", False))
        res["cases"].append((res["pop"], name, bool(nontrivial)))
    # debug mode keeps the caller's rows in order
    try:
        perm = rng.permutation(len(df))
        dfp = df.iloc[perm].copy()
        dfp.index = _labels(rng, len(df), 0)
        r2 = env.simulate(dfp, params, functions, ["eink_st_y_sn", "kindergeld_m"], debug=True)
        if list(r2["p_id"].to_numpy()) != list(dfp["p_id"].to_numpy()) or len(r2) != len(dfp):
            res["violations"].append(dict(key="debug:row_order", what="debug=True output rows are not in input order"))
        res["runs"] += 1
    except Exception as e:  # noqa: BLE001
        res["violations"].append(dict(key=f"debug:exception:{type(e).__name__}",
                                      what=f"debug=True with shuffled index labels raises: {str(e)[:200]}"))
    res["float_noise_nodes"] = sorted(res["float_noise_nodes"])
    res["sample"] = popgen.describe(df)
    return res


def summarize(results, tier, seed):
    viol, cases, runs, noise, amp, compared = [], set(), 0, 0, [], 0
    noise_nodes = set()
    for r in results:
        if "_harness_error" in r:
            continue
        runs += r["runs"]
        noise += r["noise"]
        compared += r["nodes_compared"]
        amp += r["amplified"]
        noise_nodes |= set(r["float_noise_nodes"])
        for c in r["cases"]:
            if c[2]:
                cases.add((c[0], c[1]))
        for v in r["violations"]:
            viol.append(dict(key=v["key"], what=v["what"], witness=v,
                             item=r["_item"]))
    inconclusive = []
    if runs and len(amp) > 0.01 * runs:
        inconclusive.append(f"{len(amp)} noise-amplified comparisons in {runs} runs")
    if len(cases) < 10:
        inconclusive.append("fewer than 10 distinct non-trivial (population, order) cases")
    ok = [r for r in results if "_harness_error" not in r]
    cov = dict(
        evaluations=runs,
        distinct_nontrivial=len(cases),
        rule="one evaluation = one all-nodes simulation of a generated valid population under one row "
             "order and index labelling, compared node by node (aligned by p_id) with the canonical "
             "order; non-trivial = order differs from identity and the population has >= 2 households; "
             "distinct by (population digest, order name)",
        dates=sorted({r["date"] for r in ok}),
        populations=len({r["pop"] for r in ok}),
        runs_with_columns_needing_conversion=sum(r.get("runs_with_converted_columns", 0) for r in ok),
        large_populations=[r["persons"] for r in ok if r["_item"].get("large")],
        populations_with_all_row_orders=[(r["persons"], r["runs"]) for r in ok if r["_item"].get("all_orders")],
        node_comparisons=compared,
        float_sum_noise_events=noise,
        float_sum_noise_nodes=sorted(noise_nodes)[:40],
        noise_amplified=amp[:5],
        samples=[dict(date=r["date"], k=r["k"], population=r["sample"],
                      orders=[c[1] for c in r["cases"]][:12]) for r in ok[:3]],
    )
    return dict(coverage=cov, violations=viol, inconclusive=inconclusive,
                assumptions=["valid populations as produced by vf.popgen (DESIGN.md section 3)",
                             "float sums over >= 3 members may differ by summation order (<= 1e-12 relative)"])

"""C09 - rewriting a rule into array form preserves its meaning, or fails loudly; producing the
array form has no side effects.

Monitor: differential execution.  For every internal scalar rule (all validity periods) and for
grammar-generated programs in the documented restricted style, the array form g =
make_vectorizable(f) is called on hostile argument arrays (also of length 1 and 2) and compared
position by position with f called on the scalars.  Outcomes: equal / loud (exception at rewrite
or call) / silent mismatch (violation).  A mechanism classifier re-runs a *neutralised twin* of
the source (augmented assignments in `if` rewritten to plain assignments, reductions over list
literals rewritten to pairwise operations): a mismatch that disappears in the twin is fully
explained by that mechanism at that call site.  Purity: fingerprints of the defining module and
of the original function before / after the rewrite, and a behavioural probe (simulate, rewrite,
set up the environment again, simulate)."""
from __future__ import annotations

import ast
import copy
import datetime
import inspect
import linecache
import math
import warnings

import numpy as np

PROPERTY = "C09"
LEVEL = "translation_validation"
N_ROWS = 257


# ------------------------------------------------------------------ neutralised twins
class _Neutralise(ast.NodeTransformer):
    def __init__(self, m1, m2):
        self.m1, self.m2 = m1, m2
        self.applied = set()
        self._in_if = 0

    def visit_If(self, node):  # noqa: N802
        self._in_if += 1
        self.generic_visit(node)
        self._in_if -= 1
        return node

    def visit_AugAssign(self, node):  # noqa: N802
        self.generic_visit(node)
        if self.m1 and self._in_if and isinstance(node.target, ast.Name):
            self.applied.add("M1")
            return ast.Assign(
                targets=[ast.Name(id=node.target.id, ctx=ast.Store())],
                value=ast.BinOp(left=ast.Name(id=node.target.id, ctx=ast.Load()), op=node.op, right=node.value),
            )
        return node

    def visit_Call(self, node):  # noqa: N802
        self.generic_visit(node)
        if (self.m2 and isinstance(node.func, ast.Name) and node.func.id in ("min", "max", "sum", "any", "all")
                and len(node.args) == 1 and isinstance(node.args[0], (ast.List, ast.Tuple)) and node.args[0].elts):
            el = node.args[0].elts
            self.applied.add("M2")
            fid = node.func.id
            if fid in ("min", "max"):
                out = el[0]
                for e in el[1:]:
                    out = ast.Call(func=ast.Name(id=fid, ctx=ast.Load()), args=[out, e], keywords=[])
                return out
            if fid == "sum":
                out = el[0]
                for e in el[1:]:
                    out = ast.BinOp(left=out, op=ast.Add(), right=e)
                return out
            op = ast.Or() if fid == "any" else ast.And()
            if len(el) == 1:
                return ast.Call(func=ast.Name(id="bool", ctx=ast.Load()), args=[el[0]], keywords=[])
            return ast.BoolOp(op=op, values=list(el))
        return node


_GEN_COUNTER = [0]


def compile_source(src, name, glob):
    """exec a function definition so that inspect.getsource works (linecache)."""
    _GEN_COUNTER[0] += 1
    fname = f"<vf-gen-{_GEN_COUNTER[0]}>"
    linecache.cache[fname] = (len(src), None, src.splitlines(True), fname)
    ns = dict(glob)
    exec(compile(src, fname, "exec"), ns)  # noqa: S102
    return ns[name]


def twin_of(f, m1, m2):
    src = inspect.getsource(f)
    src = inspect.cleandoc("\n" + src) if src.startswith(" ") else src
    tree = ast.parse(src)
    fd = next(n for n in tree.body if isinstance(n, ast.FunctionDef))
    fd.decorator_list = []
    tr = _Neutralise(m1, m2)
    tree = ast.fix_missing_locations(tr.visit(tree))
    if not tr.applied:
        return None, set()
    new_src = ast.unparse(tree)
    return compile_source(new_src, fd.name, f.__globals__), tr.applied


# ------------------------------------------------------------------------ comparison
def scalar_rows(f, cols, fixed, n):
    out, ok = [], []
    for i in range(n):
        try:
            with warnings.catch_warnings():
                warnings.simplefilter("ignore")
                out.append(f(**{a: c[i] for a, c in cols.items()}, **fixed))
            ok.append(i)
        except Exception:  # noqa: BLE001
            out.append(None)
    return out, ok


def _py(v):
    return v.item() if isinstance(v, np.generic) else v


def compare_arrays(g, arrays, fixed, ref, idx):
    """Call array form on rows idx. Returns (status, detail) with status in equal | loud | mismatch | incomparable."""
    sub = {a: v[idx] for a, v in arrays.items()}
    try:
        with warnings.catch_warnings():
            warnings.simplefilter("ignore")
            got = g(**sub, **fixed)
    except Exception as e:  # noqa: BLE001
        return "loud", f"{type(e).__name__}: {str(e)[:100]}"
    want = [ref[i] for i in idx]
    if isinstance(got, (dict, list, tuple)) or any(isinstance(w, (dict, list, tuple)) for w in want):
        return "incomparable", "container result"
    try:
        garr = np.asarray(got)
        if garr.dtype == object:
            return "incomparable", "object result"
        gb = np.broadcast_to(garr, (len(idx),)) if garr.ndim <= 1 else None
    except Exception as e:  # noqa: BLE001
        return "mismatch", f"result of shape {np.shape(got)} for {len(idx)} rows ({e})"
    if gb is None:
        return "mismatch", f"result of shape {garr.shape} for {len(idx)} rows"
    for j, (a, b) in enumerate(zip(gb.tolist(), want)):
        b = _py(b)
        if isinstance(b, (np.datetime64, datetime.date)) or isinstance(a, (np.datetime64, datetime.date)):
            if np.datetime64(a, "s") != np.datetime64(b, "s"):
                return "mismatch", f"row {idx[j]}: array form {a!r}, scalar {b!r}"
            continue
        try:
            same = (a == b) or (isinstance(a, float) and isinstance(b, float) and math.isnan(a) and math.isnan(b))
            if not same and isinstance(a, (int, float)) and isinstance(b, (int, float)):
                same = abs(a - b) <= 1e-12 * max(1.0, abs(b))
        except Exception:  # noqa: BLE001
            same = False
        if not same:
            return "mismatch", f"row {int(idx[j])}: array form returns {a!r}, scalar function returns {b!r} (array result shape {garr.shape})"
    return "equal", ""


def decide(f, g, arrays, fixed, n, key_site):
    """Full protocol for one function. Returns dict(outcome, detail, mechanism)."""
    cols = {a: v.tolist() for a, v in arrays.items()}
    ref, ok = scalar_rows(f, cols, fixed, n)
    if len(ok) < 4:
        return dict(outcome="infeasible", detail="scalar function raises on (almost) all generated rows", rows=0)
    ok = np.array(ok)
    outcomes = []
    for idx in (ok, ok[:1], ok[1:3], ok[::-1]):
        if len(idx) == 0:
            continue
        st, detail = compare_arrays(g, arrays, fixed, ref, idx)
        outcomes.append((st, detail, len(idx)))
    sts = [o[0] for o in outcomes]
    rows = len(ok)
    if "mismatch" in sts:
        st, detail, ln = next(o for o in outcomes if o[0] == "mismatch")
        mech = None
        for m1, m2, nm in ((True, False, "M1"), (False, True, "M2"), (True, True, "M1+M2")):
            try:
                tw, applied = twin_of(f, m1, m2)
            except Exception:  # noqa: BLE001
                tw, applied = None, set()
            if tw is None:
                continue
            try:
                from _gettsim.vectorization import make_vectorizable

                gt = make_vectorizable(tw, "numpy")
                tw_sts = [compare_arrays(gt, arrays, fixed, ref, idx)[0] for idx in (ok, ok[:1], ok[1:3]) if len(idx)]
            except Exception:  # noqa: BLE001
                tw_sts = ["loud"]
            # the twin must itself be a faithful scalar function
            tref, tok = scalar_rows(tw, cols, fixed, n)
            faithful = all((tref[i] == ref[i]) or (tref[i] != tref[i] and ref[i] != ref[i]) for i in ok.tolist())
            if faithful and "mismatch" not in tw_sts:
                mech = nm
                break
        return dict(outcome="mismatch", detail=f"{detail} (on {ln} rows)", mechanism=mech, rows=rows)
    if "loud" in sts:
        # loud on the full array but silently fine on size-1 arrays is still "loud" overall
        st, detail, ln = next(o for o in outcomes if o[0] == "loud")
        return dict(outcome="loud_call", detail=detail, rows=rows)
    if "incomparable" in sts:
        return dict(outcome="incomparable", detail=outcomes[0][1], rows=rows)
    return dict(outcome="equal", detail="", rows=rows)


# ------------------------------------------------------------------ hostile values
def literals_of(f):
    try:
        tree = ast.parse(inspect.cleandoc("\n" + inspect.getsource(f)) if inspect.getsource(f).startswith(" ") else inspect.getsource(f))
    except Exception:  # noqa: BLE001
        return []
    out = []
    for n in ast.walk(tree):
        if isinstance(n, ast.Constant) and isinstance(n.value, (int, float)) and not isinstance(n.value, bool):
            out.append(float(n.value))
    return out


def hostile(rng, name, typ, n, pool):
    from vf.checks.c03 import gen_values

    if typ is float:
        base = np.asarray(pool, dtype=float)
        v = base[rng.integers(0, len(base), n)]
        u = rng.random(n)
        v = np.where(u < 0.2, np.nextafter(v, np.inf), v)
        v = np.where((u >= 0.2) & (u < 0.4), np.nextafter(v, -np.inf), v)
        v = np.where((u >= 0.4) & (u < 0.5), v + 0.01, v)
        v = np.where((u >= 0.5) & (u < 0.6), v - 0.01, v)
        g = gen_values(rng, name, float, n, base)
        return np.where(u >= 0.75, g, v).astype(float)
    if typ is int and ("anz_" in name or name.startswith("anz") or "kinder" in name):
        # counts: small numbers, every combination of 0 / 1 / 2 / 3 matters for bracket conditions
        return rng.choice([0, 0, 0, 1, 1, 2, 2, 3, 4, 5, 6, 10], n).astype(np.int64)
    if typ is int:
        g = gen_values(rng, name, int, n, pool)
        lits = np.array([int(x) for x in pool if float(x).is_integer() and abs(x) < 3000] or [0])
        near = lits[rng.integers(0, len(lits), n)] + rng.integers(-1, 2, n)
        return np.where(rng.random(n) < 0.4, np.maximum(near, 0 if "alter" in name or "anz" in name else near), g).astype(np.int64)
    return gen_values(rng, name, typ, n, pool)


# --------------------------------------------------------------------------- plan
def plan(tier, seed):
    from vf.checks.c03 import rule_catalogue
    from vf.core import rng_for

    r = rng_for(seed, PROPERTY, 0)
    items = []
    cat = rule_catalogue(min_year=1984)
    for key, (name, act) in sorted(cat.items()):
        if not act:
            continue
        pick = {act[-1]} if tier == "quick" else {act[-1], act[0], act[len(act) // 2]}
        for d in sorted(pick):
            items.append(dict(kind="rule", rule=key, name=name, date=str(d), seed=seed))
    n_prog = 400 if tier == "quick" else 6000
    per = 50
    for i in range(0, n_prog, per):
        items.append(dict(kind="programs", first=i, count=per, seed=seed))
    for k in range(2 if tier == "quick" else 6):
        items.append(dict(kind="history", k=k, seed=seed))
    return items


def run_item(item):
    return {"rule": _run_rule, "programs": _run_programs, "history": _run_history}[item["kind"]](item)


def _module_fp(f):
    import sys

    mod = sys.modules.get(f.__module__)
    d = mod.__dict__ if mod is not None else f.__globals__
    return {k: id(v) for k, v in d.items() if not k.startswith("__")}


def _run_rule(item):
    from _gettsim.shared import TIME_DEPENDENT_FUNCTIONS
    from _gettsim.vectorization import make_vectorizable
    from vf import env, popgen, shadow
    from vf.checks.c03 import _rule_key, arg_type
    from vf.core import crc, rng_for

    d = datetime.date.fromisoformat(item["date"])
    rng = rng_for(item["seed"], PROPERTY, d.toordinal(), crc(item["rule"]))
    params, functions = env.environment(d)
    res = dict(kind="rule", rule=item["rule"], date=item["date"], outcome="", detail="", violations=[], rows=0,
               registry_growth=0)
    f = functions.get(item["name"])
    if f is None or _rule_key(f) != item["rule"]:
        res["outcome"] = "not_active"
        return res
    fp0, code0 = _module_fp(f), f.__code__
    attrs0 = copy.deepcopy({k: v for k, v in f.__dict__.items() if k != "__wrapped__"})
    ann0, defaults0 = dict(f.__annotations__), (f.__defaults__, f.__kwdefaults__)
    reg0 = sum(len(v) for v in TIME_DEPENDENT_FUNCTIONS.values())
    try:
        g = make_vectorizable(f, "numpy")
    except Exception as e:  # noqa: BLE001
        res["outcome"] = "loud_rewrite"
        res["detail"] = f"{type(e).__name__}"
        g = None
    fp1 = _module_fp(f)
    res["registry_growth"] = sum(len(v) for v in TIME_DEPENDENT_FUNCTIONS.values()) - reg0
    if fp0 != fp1 or f.__code__ is not code0 or f.__globals__.get(f.__name__, f) is not f and fp0.get(f.__name__) == id(f):
        changed = sorted(k for k in set(fp0) | set(fp1) if fp0.get(k) != fp1.get(k))
        res["violations"].append(dict(key="purity:module_rebinding",
                                      what=f"make_vectorizable({item['rule']}) changed its defining module: names {changed[:5]} were (re)bound"))
    attrs1 = {k: v for k, v in f.__dict__.items() if k != "__wrapped__"}
    if attrs1 != attrs0 or dict(f.__annotations__) != ann0 or (f.__defaults__, f.__kwdefaults__) != defaults0:
        changed = sorted(k for k in set(attrs0) | set(attrs1) if attrs0.get(k) != attrs1.get(k))
        detail = {k: (attrs0.get(k), attrs1.get(k)) for k in changed}
        res["violations"].append(dict(key="purity:original_function_attributes",
                                      what=f"make_vectorizable({item['rule']}) changed attributes of the ORIGINAL function: {str(detail)[:300]}"))
    if g is None:
        return res
    args = [a for a in shadow.rule_args(f) if not (a.endswith("_params") and a[:-7] in params)]
    fixed = {a: params[a[:-7]] for a in shadow.rule_args(f) if a.endswith("_params") and a[:-7] in params}
    if any(a.endswith("_params") for a in args):
        res["outcome"] = "incomparable"
        return res
    if not args:
        res["outcome"] = "data_independent"
        return res
    pool = sorted(set(literals_of(f) + [0.0, 1.0] + list(rng.choice(popgen.money_thresholds(params) or [100.0], 12))))
    arrays = {a: hostile(rng, a, arg_type(a, f, functions), N_ROWS, pool) for a in args}
    dec = decide(f, g, arrays, fixed, N_ROWS, item["rule"])
    res.update(outcome=dec["outcome"], detail=dec.get("detail", ""), rows=dec.get("rows", 0))
    if dec["outcome"] == "mismatch":
        mech = dec.get("mechanism") or "unexplained"
        res["violations"].append(dict(
            key=f"{mech}:{item['rule']}",
            what=f"array form of {item['rule']} silently differs from the scalar rule ({mech}): {dec['detail']}"))
    res["sample"] = dict(rule=item["rule"], date=item["date"], args=args, outcome=res["outcome"])
    return res


# ----------------------------------------------------------------- program generator
class Gen:
    FV = ["x", "y", "z"]
    BV = ["b", "c"]

    def __init__(self, rng):
        self.r = rng
        self.features = set()

    def const(self):
        return str(self.r.choice(["0", "1", "2", "0.5", "-1", "10", "3.25"]))

    def fexpr(self, d=0):
        r = self.r.random()
        if d >= 2 or r < 0.45:
            return str(self.r.choice(self.FV)) if self.r.random() < 0.7 else self.const()
        if r < 0.6:
            return f"({self.fexpr(d + 1)} {self.r.choice(['+', '-', '*'])} {self.fexpr(d + 1)})"
        if r < 0.72:
            fn = str(self.r.choice(["min", "max"]))
            self.features.add(fn + "2")
            return f"{fn}({self.fexpr(d + 1)}, {self.fexpr(d + 1)})"
        if r < 0.77:
            fn = str(self.r.choice(["min", "max", "sum"]))
            self.features.add(fn + "_list")
            k = int(self.r.integers(2, 4))
            return f"{fn}([{', '.join(self.fexpr(d + 1) for _ in range(k))}])"
        if r < 0.9:
            self.features.add("ifexp")
            return f"({self.fexpr(d + 1)} if {self.bexpr(d + 1)} else {self.fexpr(d + 1)})"
        return str(self.r.choice(self.FV))

    def bexpr(self, d=0):
        r = self.r.random()
        if d >= 2 or r < 0.5:
            if self.r.random() < 0.3:
                return str(self.r.choice(self.BV))
            if self.r.random() < 0.04:
                self.features.add("chained_comparison")
                return (f"{self.fexpr(d + 1)} {self.r.choice(['<', '<='])} {self.fexpr(d + 1)} "
                        f"{self.r.choice(['<', '<='])} {self.fexpr(d + 1)}")
            return f"{self.fexpr(d + 1)} {self.r.choice(['<', '<=', '>', '>=', '==', '!='])} {self.fexpr(d + 1)}"
        if r < 0.72:
            op = str(self.r.choice(["and", "or"]))
            self.features.add(op)
            k = int(self.r.integers(2, 4))
            return "(" + f" {op} ".join(self.bexpr(d + 1) for _ in range(k)) + ")"
        if r < 0.84:
            self.features.add("not")
            return f"(not {self.bexpr(2)})"
        if r < 0.88:
            fn = str(self.r.choice(["any", "all"]))
            self.features.add(fn + "_list")
            return f"{fn}([{self.bexpr(d + 1)}, {self.bexpr(d + 1)}])"
        return str(self.r.choice(self.BV))

    def block(self, var, ind, depth, allow_aug=True):
        r = self.r.random()
        pad = "    " * ind
        if depth < 2 and r < 0.2:
            self.features.add("nested_if")
            return self.ifchain(var, ind, depth + 1)
        if allow_aug and r < 0.32:
            self.features.add("augassign")
            return f"{pad}{var} {self.r.choice(['+=', '-=', '*='])} {self.fexpr(1)}\n"
        return f"{pad}{var} = {self.fexpr(1)}\n"

    def ifchain(self, var, ind, depth=0):
        pad = "    " * ind
        s = f"{pad}if {self.bexpr()}:\n" + self.block(var, ind + 1, depth)
        for _ in range(int(self.r.integers(0, 3))):
            self.features.add("elif")
            s += f"{pad}elif {self.bexpr()}:\n" + self.block(var, ind + 1, depth)
        if self.r.random() < 0.65:
            self.features.add("else")
            v2 = var
            if self.r.random() < 0.03:
                v2 = "aux"
                self.features.add("other_target_in_else")
            s += f"{pad}else:\n" + self.block(v2, ind + 1, depth)
        else:
            self.features.add("no_else")
        return s

    def retchain(self, ind):
        pad = "    " * ind
        self.features.add("return_chain")
        s = f"{pad}if {self.bexpr()}:\n{pad}    return {self.fexpr(1)}\n"
        for _ in range(int(self.r.integers(0, 3))):
            s += f"{pad}elif {self.bexpr()}:\n{pad}    return {self.fexpr(1)}\n"
        s += f"{pad}else:\n{pad}    return {self.fexpr(1)}\n"
        return s

    def program(self, name):
        s = f"def {name}(x: float, y: float, z: float, b: bool, c: bool) -> float:\n"
        s += f"    out = {self.fexpr()}\n    aux = {self.fexpr(2)}\n"
        for _ in range(int(self.r.integers(1, 3))):
            if self.r.random() < 0.75:
                s += self.ifchain("out", 1)
            else:
                s += f"    out = {self.fexpr()}\n"
        if self.r.random() < 0.2:
            s += self.retchain(1)
        else:
            s += "    return out + aux * 0\n" if self.r.random() < 0.5 else "    return out\n"
        return s


def _run_programs(item):
    from _gettsim.vectorization import make_vectorizable
    from vf.core import rng_for

    res = dict(kind="programs", programs=0, outcomes={}, features={}, violations=[], samples=[], distinct=set())
    vals = np.array([-2.0, -1.0, 0.0, 0.5, 1.0, 2.0, 3.25, 10.0])
    for i in range(item["first"], item["first"] + item["count"]):
        rng = rng_for(item["seed"], PROPERTY, 77, i)
        gen = Gen(rng)
        src = gen.program(f"prog_{i}")
        try:
            f = compile_source(src, f"prog_{i}", {"__name__": "vf_generated"})
        except SyntaxError:
            continue
        res["programs"] += 1
        res["distinct"].add(hash(src.replace(f"prog_{i}", "p")))
        n = 64
        arrays = dict(x=vals[rng.integers(0, len(vals), n)], y=vals[rng.integers(0, len(vals), n)],
                      z=vals[rng.integers(0, len(vals), n)], b=rng.random(n) < 0.5, c=rng.random(n) < 0.5)
        try:
            g = make_vectorizable(f, "numpy")
        except Exception as e:  # noqa: BLE001
            out = "loud_rewrite"
            dec = dict(outcome=out, detail=type(e).__name__)
        else:
            dec = decide(f, g, arrays, {}, n, f"prog_{i}")
            out = dec["outcome"]
        res["outcomes"][out] = res["outcomes"].get(out, 0) + 1
        for ft in gen.features:
            res["features"][ft] = res["features"].get(ft, 0) + 1
        if out == "mismatch":
            mech = dec.get("mechanism") or "unexplained"
            res["violations"].append(dict(
                key=f"{mech}:generated_program", program=i, source=src,
                what=f"array form of a generated restricted-style program silently differs ({mech}): {dec['detail']}"))
        if len(res["samples"]) < 2:
            res["samples"].append(dict(program=i, source=src, outcome=out))
    res["distinct"] = sorted(res["distinct"])
    return res


def _run_history(item):
    """simulate -> rewrite rules used by the simulation -> set up again -> simulate."""
    from _gettsim.vectorization import make_vectorizable
    from vf import env, popgen
    from vf.core import rng_for

    rng = rng_for(item["seed"], PROPERTY, 5, item["k"])
    d = [datetime.date(2023, 7, 1), datetime.date(2019, 1, 1), datetime.date(2016, 7, 1)][item["k"] % 3]
    params, functions = env.environment(d, fresh=True)
    df = popgen.population(rng, d, n_hh=8, params=params)
    res = dict(kind="history", date=str(d), rewritten=0, violations=[], nodes=0)
    try:
        before, nodes, roots, dag, fn = env.trace(df, params, functions)
    except Exception as e:  # noqa: BLE001
        # this interpreter has already rewritten rules (other items): a failing plain simulation is the leak itself
        res["violations"].append(dict(key="history:vectorize_then_setup",
                                      what=f"after earlier rewrites in this process a fresh environment cannot be simulated: {type(e).__name__}: {str(e)[:150]}"))
        return res
    res["nodes"] = len(nodes)
    rules = [t for t in nodes if t in functions and inspect.isfunction(functions[t])]
    for t in rules:
        try:
            make_vectorizable(functions[t], "numpy")
            res["rewritten"] += 1
        except Exception:  # noqa: BLE001
            pass
    try:
        params2, functions2 = env.environment(d, fresh=True)
        after, nodes2, _, _, _ = env.trace(df, params2, functions2)
    except Exception as e:  # noqa: BLE001
        res["violations"].append(dict(
            key="history:vectorize_then_setup",
            what=f"after rewriting {res['rewritten']} rules into array form, setting up the environment and simulating "
                 f"again raises {type(e).__name__}: {str(e)[:150]}"))
        return res
    if nodes2 != nodes:
        res["violations"].append(dict(key="history:vectorize_then_setup", what="node set differs after rewriting rules"))
    else:
        for t in nodes:
            a, b = before[t].to_numpy(), after[t].to_numpy()
            same = a.dtype == b.dtype and bool(np.all((a == b) | ((a != a) & (b != b))))
            if not same:
                res["violations"].append(dict(
                    key="history:vectorize_then_setup",
                    what=f"after rewriting {res['rewritten']} rules into array form and setting up the environment again, "
                         f"node {t} differs from the simulation before the rewrite"))
                break
    same_objs = all(functions2[k] is functions[k] for k in functions)
    if not same_objs:
        k = next(k for k in functions if functions2[k] is not functions[k])
        res["violations"].append(dict(key="purity:module_rebinding",
                                      what=f"after rewriting, set_up_policy_environment returns another object for {k}"))
    return res


def summarize(results, tier, seed):
    ok = [r for r in results if "_harness_error" not in r]
    viol = [dict(key=v["key"], what=v["what"], witness=v, item=r["_item"]) for r in ok for v in r["violations"]]
    rules = [r for r in ok if r["kind"] == "rule"]
    progs = [r for r in ok if r["kind"] == "programs"]
    hist = [r for r in ok if r["kind"] == "history"]
    oc = {}
    for r in rules:
        oc[r["outcome"]] = oc.get(r["outcome"], 0) + 1
    pc, feats, distinct = {}, {}, set()
    for r in progs:
        for k, v in r["outcomes"].items():
            pc[k] = pc.get(k, 0) + v
        for k, v in r["features"].items():
            feats[k] = feats.get(k, 0) + v
        distinct |= set(r["distinct"])
    n_prog = sum(r["programs"] for r in progs)
    compared_rules = {r["rule"] for r in rules if r["outcome"] in ("equal", "mismatch", "loud_call")}
    inconclusive = []
    if oc.get("equal", 0) < 100:
        inconclusive.append("fewer than 100 internal rules compared equal on arrays: comparison not reaching")
    if n_prog and pc.get("equal", 0) < 0.2 * n_prog:
        inconclusive.append("fewer than 20 % of generated programs are rewritten and compared equal")
    if not hist:
        inconclusive.append("no behavioural purity probe ran")
    cov = dict(
        programs=len(compared_rules) + len(distinct),
        disagreements_checked=sum(1 for v in viol),
        evaluations=len(rules) + n_prog + len(hist),
        distinct_nontrivial=len(compared_rules) + len(distinct),
        rule="program = an internal scalar rule (by module.function, at a date of its validity period) or a distinct "
             "generated restricted-style program; each is rewritten by make_vectorizable and compared position by "
             "position on hostile arrays of length 129 / 64, 1 and 2 and in reversed order; non-trivial = the array "
             "form could be called and compared (equal, mismatch or loud at call)",
        internal_rule_outcomes=oc,
        generated_program_outcomes=pc,
        generated_program_features=feats,
        rows_compared=sum(r.get("rows", 0) for r in rules),
        registry_growth_observed=sum(r.get("registry_growth", 0) for r in rules),
        behavioural_probes=[dict(date=r["date"], rules_rewritten=r["rewritten"], nodes=r["nodes"]) for r in hist],
        loud_call_reasons=sorted({r["detail"][:60] for r in rules if r["outcome"] == "loud_call"})[:12],
        samples=[r["sample"] for r in rules[:2] if "sample" in r] + [s for r in progs[:1] for s in r["samples"][:1]],
    )
    return dict(coverage=cov, violations=viol, inconclusive=inconclusive,
                assumptions=["inputs are finite (no NaN): python min/max and numpy.minimum/maximum differ on NaN",
                             "rows on which the scalar function raises are excluded from the arrays",
                             "the growth of the shared TIME_DEPENDENT_FUNCTIONS registry caused by re-running the decorator is reported, not judged"])

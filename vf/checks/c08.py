"""C08 - every supported date (>= 2015-01-01) yields a complete, computable system.

Monitor: exception monitor over real simulations (default targets and all nodes, rounding on)
of branch-reaching valid populations at every change date >= 2015, its eve and random days of
every interval; documented-roots monitor; reach evidence by sys.monitoring LINE events on the
rule bodies; parameter-read recording with a fault-injection self-check (deleting a parameter
that was observed being read must make the run fail)."""
from __future__ import annotations

import datetime

import numpy as np

PROPERTY = "C08"
LEVEL = "exploration"
ONE = datetime.timedelta(days=1)
CORNERS = [None, "huge", "zero", "negative", None, None]


def dates_for(tier, seed):
    from vf import env
    from vf.core import rng_for

    r = rng_for(seed, PROPERTY, 0)
    ds = env.supported_change_dates()
    end = env.last_param_date()
    out = set()
    per = 2 if tier == "quick" else 6
    for a, b in zip(ds, ds[1:] + [end + datetime.timedelta(days=365)]):
        out |= {a}
        if a - ONE >= datetime.date(2015, 1, 1):
            out.add(a - ONE)
        span = (b - a).days
        if span > 2:
            for i in r.integers(1, span - 1, per):
                out.add(a + datetime.timedelta(days=int(i)))
    return sorted(out)


def plan(tier, seed):
    k_pop = 3 if tier == "quick" else 8
    ds = dates_for(tier, seed)
    items = [dict(date=str(d), k=k, seed=seed) for d in ds for k in range(k_pop)]
    # table-driven inputs through their whole domain (ages 0-100, cohorts, household sizes x Mietstufe ...)
    items += [dict(date=str(d), k=900, seed=seed, domain=True) for i, d in enumerate(ds) if tier == "thorough" or i % 3 == 0]
    return items


def worker_init():
    from vf import linecov

    linecov.start()


def _key_of(e):
    import re

    msg = str(e).strip().splitlines()[0] if str(e).strip() else ""
    msg = re.sub(r"\d+(\.\d+)?", "#", msg)[:80]
    return f"{type(e).__name__}:{msg}"


def run_item(item):
    from _gettsim.config import DEFAULT_TARGETS, TYPES_INPUT_VARIABLES
    from vf import env, linecov, paramtrace, popgen
    from vf.core import rng_for

    d = datetime.date.fromisoformat(item["date"])
    rng = rng_for(item["seed"], PROPERTY, d.toordinal(), item["k"])
    params, functions = env.environment(d)
    corner = CORNERS[item["k"] % len(CORNERS)]
    if item.get("domain"):
        df = popgen.domain_sweep(rng, d, params)
        corner = "domain_sweep"
    else:
        df = popgen.population(rng, d, n_hh=int(rng.integers(8, 16)), params=params, corner=corner)
        df = popgen.branch_reach(rng, df, d, params)
    if item["k"] % 2:
        df = df.iloc[rng.permutation(len(df))].reset_index(drop=True)
    if item["k"] % 3 == 1 and not item.get("domain"):
        # person identifiers as real data sets carry them: 16-digit composite keys.  Household ids stay small: group ids are
        # used as dense array indices (hh_id * 100 + k), so household keys >= 10^8 ask for > 10^10 floats - a resource limit
        # stated as an assumption in DESIGN.md section 3, not one of the failures C08 is about
        pids = df["p_id"].tolist()
        df = popgen.relabel(df, {int(p_): 10 ** 15 + 7919 * int(p_) + 3 for p_ in pids}, None)
        corner = f"{corner}+long_ids"
    res = dict(date=item["date"], k=item["k"], pop=popgen.digest(df), persons=len(df), runs=0, violations=[],
               roots=[], new_lines=[], param_reads=[], fault_injections=0, fault_silent=[], active_rule_lines=None)

    def viol(key, what, **kw):
        res["violations"].append(dict(key=key, what=what, date=item["date"], **kw))

    # documented roots, acyclic graph
    try:
        nodes, roots, dag, fn = env.graph(functions, list(df.columns))
    except Exception as e:  # noqa: BLE001
        viol(f"graph:{_key_of(e)}", f"{item['date']}: building the dependency graph fails: {type(e).__name__} {str(e)[:200]}")
        return res
    import networkx as nx

    if not nx.is_directed_acyclic_graph(dag):
        viol("graph:cycle", f"{item['date']}: dependency graph has a cycle")
    undocumented = [r_ for r_ in roots if r_ not in TYPES_INPUT_VARIABLES
                    and not (r_.endswith("_params") and r_[:-7] in params)]
    for r_ in undocumented:
        viol(f"root:{r_}", f"{item['date']}: leaf {r_} of the default targets' graph is not a documented input variable")
    res["roots"] = roots
    # the full documented input set must suffice even when nothing else is supplied
    wrapped, log = paramtrace.wrap_params(params)
    for label, targets, p in (("default", list(DEFAULT_TARGETS), wrapped), ("all_nodes", nodes, params)):
        try:
            out = env.simulate(df, p, functions, targets)
            res["runs"] += 1
            if len(out) != len(df):
                viol("shape", "row count differs")
        except Exception as e:  # noqa: BLE001
            viol(f"exception:{_key_of(e)}",
                 f"{item['date']}: simulation of a valid population ({label} targets, corner={corner}) raises "
                 f"{type(e).__name__}: {str(e)[:300]}", label=label)
    res["new_lines"] = linecov.drain()
    res["param_reads"] = sorted({"/".join(map(str, p_)) for _, p_ in log})
    # fault-injection self-check of the recording: deleting a parameter that was read must be loud
    reads = sorted({p_ for _, p_ in log if p_[-1] != "*" and len(p_) >= 2}, key=lambda t: tuple(map(str, t)))
    if reads and not res["violations"]:
        for i in rng.choice(len(reads), min(2, len(reads)), replace=False):
            p2 = paramtrace.delete_path(params, reads[i])
            if p2 is None:
                continue
            res["fault_injections"] += 1
            try:
                env.simulate(df, p2, functions, list(DEFAULT_TARGETS))
                res["fault_silent"].append("/".join(map(str, reads[i])))
            except Exception:  # noqa: BLE001
                pass
    # lines of active rule bodies (for the reach ratio)
    lines = {}
    for t in nodes:
        f = functions.get(t)
        if f is not None and hasattr(f, "__code__"):
            fname, ls = linecov.rule_lines(f)
            if fname:
                lines[t] = (fname, ls)
    res["active_rule_lines"] = lines
    res["sample"] = dict(date=item["date"], corner=corner, population=popgen.describe(df))
    return res


def summarize(results, tier, seed):
    ok = [r for r in results if "_harness_error" not in r]
    viol = [dict(key=v["key"], what=v["what"], witness=v, item=r["_item"]) for r in ok for v in r["violations"]]
    hit = set()
    for r in ok:
        hit |= {(a, b) for a, b in r["new_lines"]}
    total, reached, unreached = 0, 0, {}
    seen_rules = {}
    for r in ok:
        for t, (fname, ls) in (r["active_rule_lines"] or {}).items():
            seen_rules[(fname, t, tuple(ls))] = None
    for (fname, t, ls) in seen_rules:
        for l in ls:
            total += 1
            if (fname, l) in hit:
                reached += 1
            else:
                unreached.setdefault(f"{fname}:{t}", []).append(l)
    reads = set()
    for r in ok:
        reads |= set(r["param_reads"])
    silent = sorted({s for r in ok for s in r["fault_silent"]})
    inj = sum(r["fault_injections"] for r in ok)
    inconclusive = []
    ratio = reached / total if total else 0.0
    if ratio < 0.90:
        inconclusive.append(f"only {ratio:.1%} of the lines of active rule bodies were reached")
    if inj == 0 and not viol:
        inconclusive.append("no fault injection performed: parameter-read recording unvalidated")
    if inj and len(silent) > 0.5 * inj:
        inconclusive.append(f"{len(silent)} of {inj} deleted parameters did not make the run fail: recording does not see real reads")
    cov = dict(
        evaluations=sum(r["runs"] for r in ok),
        distinct_nontrivial=len({(r["date"], r["pop"]) for r in ok if r["runs"]}),
        rule="evaluation = one simulation (default targets or all nodes, rounding on) of a generated valid population "
             "at a date; distinct = (date, population digest); every case is non-trivial (>= 8 households)",
        dates=len({r["date"] for r in ok}), first_date=min((r["date"] for r in ok), default=None),
        last_date=max((r["date"] for r in ok), default=None),
        rule_body_lines_total=total, rule_body_lines_reached=reached, reach_ratio=round(ratio, 4),
        unreached_lines={k: v for k, v in sorted(unreached.items())[:80]},
        parameter_paths_read=len(reads),
        fault_injections=inj, fault_injections_silent=silent[:20],
        roots_seen=sorted({x for r in ok for x in r["roots"]}),
        samples=[r["sample"] for r in ok[:3] if "sample" in r],
    )
    return dict(coverage=cov, violations=viol, inconclusive=inconclusive,
                assumptions=["valid populations from vf.popgen incl. branch-reach sub-populations",
                             "only executed branches are decided; unreached rule lines are listed"])

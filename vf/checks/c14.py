"""C14 - simulation is pure, deterministic and independent of process history.

Monitor: offline checker over recorded histories.  A random history of API calls (set up
environment, simulate with targets / rounding / debug / data form / reform, rewrite functions
into array form) is executed in a fresh interpreter (vf.histrun) which records digests of every
result, deep snapshots of every caller-owned argument before and after, and fingerprints of
module-level state.  The checker demands (1) arguments unchanged, (2) identical calls at
different positions of a history have identical digests, (3) every call's digest equals the
digest of the same call executed alone in another fresh interpreter."""
from __future__ import annotations

import json
import os
import subprocess
import tempfile

PROPERTY = "C14"
LEVEL = "exploration"
WATCHDOG_S = {"quick": 3000, "thorough": 14400}
DATES = ["2015-01-01", "2017-03-01", "2019-07-01", "2021-01-01", "2022-10-01", "2023-07-01", "2024-01-01", "2005-01-01", "2005-07-01", "2010-01-01", "1998-01-01", "2002-07-01"]
TARGET_SETS = ["default", ["eink_st_y_sn", "soli_st_y_sn"], ["kindergeld_m", "kinderzuschl_m_bg", "wohngeld_m_wthh"],
               ["ges_rente_m", "sozialv_beitr_arbeitnehmer_m"], ["arbeitsl_geld_2_m_bg", "bg_id", "fg_id"],
               ["elterngeld_m", "unterhaltsvors_m", "ges_pflegev_beitr_arbeitnehmer_m"],
               ["anz_kinder_hh", "anz_kinder_fg", "anz_kinder_bg", "anz_erwachsene_fg", "anz_erwachsene_hh", "arbeitsl_geld_2_m_bg",
                "ges_pflegev_anz_kinder_bis_24", "ges_pflegev_beitr_arbeitnehmer_m"]]
OLD_TARGETS = [["kindergeld_m"], ["eink_st_y_sn"], "feasible", "feasible"]
GROUPS = ["eink_st", "sozialv_beitr", "kindergeld", "arbeitsl_geld_2", "wohngeld", "ges_rente"]
REFORM_FUNCS = ["kindergeld_m", "ges_pflegev_beitr_satz_arbeitnehmer", "eink_st_y_sn", "sozialv_beitr_arbeitnehmer_m"]
VEC_FUNCS = ["ges_pflegev_beitr_satz_arbeitnehmer", "kindergeld_m", "eink_st_y_sn", "ges_rentenv_beitr_arbeitnehmer_m",
             "ges_krankenv_beitr_arbeitnehmer_m", "arbeitsl_geld_2_m_bg", "wohngeld_m_wthh", "minijob_grenze",
             "ges_pflegev_beitr_arbeitnehmer_m", "ges_pflegev_zusatz_kinderlos", "elterngeld_m", "midijob_faktor_f"]


def gen_history(rng, n_ops):
    hist, slots, sims, edits, fedits = [], {}, [], {}, {}
    for _ in range(n_ops):
        r = rng.random()
        if not slots or r < 0.22:
            d = DATES[int(rng.integers(0, len(DATES)))]
            if slots and rng.random() < 0.45:
                d = slots[int(rng.choice(list(slots)))]  # a second environment for a date already in use
            s = len(slots)
            slots[s] = d
            edits[s] = []
            fedits[s] = []
            hist.append(dict(op="env", slot=s, date=d))
        elif r < 0.26 and any(int(slots[x][:4]) >= 2015 for x in slots):
            s = int(rng.choice([x for x in slots if int(slots[x][:4]) >= 2015]))
            fn_ = REFORM_FUNCS[int(rng.integers(0, len(REFORM_FUNCS)))]
            if fn_ not in fedits[s]:
                fedits[s].append(fn_)
                hist.append(dict(op="replace_function_inplace", slot=s, function=fn_))
        elif r < 0.33 and any(int(slots[x][:4]) >= 2015 for x in slots):
            s = int(rng.choice([x for x in slots if int(slots[x][:4]) >= 2015]))
            g = GROUPS[int(rng.integers(0, len(GROUPS)))]
            edits[s].append(g)
            hist.append(dict(op="reform_inplace", slot=s, group=g))
        elif r < 0.40:
            s = int(rng.choice(list(slots)))
            k = int(rng.integers(1, 5))
            hist.append(dict(op="vectorize", slot=s, functions=[VEC_FUNCS[i] for i in rng.choice(len(VEC_FUNCS), k, replace=False)]))
        elif r < 0.50 and sims:
            prev = sims[int(rng.integers(0, len(sims)))]  # repeat an earlier call (with the slot's current edits)
            hist.append(dict(op="sim", slot=prev["slot"], call=dict(prev["call"], edited_groups=list(edits[prev["slot"]]),
                                                                      edited_functions=list(fedits[prev["slot"]]))))
        else:
            s = int(rng.choice(list(slots)))
            d = slots[s]
            old = int(d[:4]) < 2015
            reform = None
            if not old and rng.random() < 0.3:
                reform = dict(group=GROUPS[int(rng.integers(0, len(GROUPS)))]) if rng.random() < 0.5 else \
                    dict(function=REFORM_FUNCS[int(rng.integers(0, len(REFORM_FUNCS)))], form=["dict", "list_func", "list_dict"][int(rng.integers(0, 3))])
            tg = OLD_TARGETS[int(rng.integers(0, len(OLD_TARGETS)))] if old else TARGET_SETS[int(rng.integers(0, len(TARGET_SETS)))]
            call = dict(date=d, reform=reform,
                        pop=dict(seed=int(rng.integers(0, 3)), n_hh=int(rng.choice([3, 6])), corner=[None, "huge"][int(rng.integers(0, 2))],
                                 variant=[None, None, "move_children", "permute_p_ids", "reverse_rows", "scale_wages", "swap_households"][int(rng.integers(0, 7))]),
                        targets=tg, rounding=bool(rng.random() < 0.7), debug=bool(rng.random() < 0.2),
                        form=str(rng.choice(["df", "dict", "dict_convert", "df_convert"])),
                        edited_groups=list(edits[s]), edited_functions=list(fedits[s]))
            if not old and rng.random() < 0.25:  # user-provided aggregation specs (re-defining built-in columns or adding new ones)
                call["specs"] = ["override_group", "override_pid", "new"][int(rng.integers(0, 3))]
            op = dict(op="sim", slot=s, call=call)
            hist.append(op)
            sims.append(op)
    return hist


def plan(tier, seed):
    from vf.checks.c03 import rule_catalogue

    n_hist, n_ops = (20, 12) if tier == "quick" else (150, 25)
    items = [dict(k=k, n_ops=n_ops, seed=seed) for k in range(n_hist)]
    # argument purity of every rule of every validity period (1984-): the rule as only target on generated columns
    cat = rule_catalogue()
    batch = []
    for key, (name, act) in sorted(cat.items()):
        if not act:
            continue
        pick = sorted({act[-1], act[len(act) // 2]}) if tier == "quick" else sorted({act[0], act[-1], act[len(act) // 2], act[len(act) // 4]})
        for d in pick:
            batch.append(dict(rule=key, name=name, date=str(d)))
    for i in range(0, len(batch), 40):
        items.append(dict(kind="rule_purity", rules=batch[i:i + 40], seed=seed))
    return items


def _rule_purity(item):
    """Every rule, alone, through the public API on generated argument columns: the caller's params, data and
    functions must be untouched afterwards (deep snapshots incl. array bytes)."""
    import copy
    import datetime
    import warnings

    import numpy as np
    import pandas as pd

    from vf import env, popgen, shadow
    from vf.checks.c03 import _rule_key, arg_type, gen_values
    from vf.core import crc, rng_for

    res = dict(kind="rule_purity", ops=0, sims=0, violations=[], singles=0, repeats_compared=0, state_changes=[], registry_growth=0,
               op_kinds={}, distinct_calls=0, sample=[], history=-1, rules_run=0, rules_skipped=0)
    for it in item["rules"]:
        d = datetime.date.fromisoformat(it["date"])
        rng = rng_for(item["seed"], PROPERTY, d.toordinal(), crc(it["rule"]))
        params, functions = env.environment(d)
        f = functions.get(it["name"])
        if f is None or _rule_key(f) != it["rule"] or not shadow.is_scalar_rule(f):
            res["rules_skipped"] += 1
            continue
        args = [a for a in shadow.rule_args(f) if not (a.endswith("_params") and a[:-7] in params)]
        if any(a.endswith("_params") for a in args) or not args:
            res["rules_skipped"] += 1
            continue
        pool = np.array(popgen.money_thresholds(params) or [100.0])
        n = 64
        cols = {a: gen_values(rng, a, arg_type(a, f, functions), n, pool) for a in args}
        cols["p_id"] = np.arange(n)
        for a in cols:
            if a.startswith("p_id_"):
                cols[a] = np.where(cols[a] == cols["p_id"], -1, np.clip(cols[a], -1, n - 1))
        # feasibility pre-run on a private copy, so that the snapshot below really is "before"
        _, errs = shadow.scalar_column(f, copy.deepcopy(params), {a: shadow.pylist(v, in_dag=False) for a, v in cols.items()}, n)
        keep = [i for i, e in enumerate(errs) if e is None]
        if len(keep) < 4:
            res["rules_skipped"] += 1
            continue
        cols = {a: v[keep] for a, v in cols.items()}
        kept = set(cols["p_id"].tolist())
        for a in cols:
            if a.startswith("p_id_"):
                cols[a] = np.array([x if x in kept else -1 for x in cols[a].tolist()])
        data = pd.DataFrame(cols)
        p_snap, f_snap, d_snap = copy.deepcopy(params), dict(functions), data.copy(deep=True)
        try:
            with warnings.catch_warnings():
                warnings.simplefilter("ignore")
                env.compute_taxes_and_transfers(data, params, functions, targets=[it["name"]])
        except Exception:  # noqa: BLE001
            res["rules_skipped"] += 1
            continue
        res["rules_run"] += 1
        bad = env.deep_equal(p_snap, params, "params")
        if bad:
            res["violations"].append(dict(key="mutation:params", what=f"computing {it['rule']} at {it['date']} modified the caller's parameters: {bad[:300]}", history=[it]))
        if f_snap != functions or any(f_snap[k] is not functions[k] for k in functions):
            res["violations"].append(dict(key="mutation:functions", what=f"computing {it['rule']} at {it['date']} modified the caller's functions", history=[it]))
        if not data.equals(d_snap) or list(data.dtypes) != list(d_snap.dtypes):
            res["violations"].append(dict(key="mutation:data_values", what=f"computing {it['rule']} at {it['date']} modified the caller's data", history=[it]))
    return res


def _run_fresh(history, timeout=2400):  # generous wall-clock watchdog (loaded machines); its firing is inconclusive, never a verdict
    from vf.core import PY, REPO, ROOT

    with tempfile.TemporaryDirectory() as td:
        hp, op = os.path.join(td, "h.json"), os.path.join(td, "o.json")
        json.dump(history, open(hp, "w"))
        env = dict(os.environ, PYTHONPATH=f"{REPO / 'src'}{os.pathsep}{ROOT}", PYTHONHASHSEED="0", VERIF_REPO=str(REPO))
        r = subprocess.run([PY, "-m", "vf.histrun", hp, op], env=env, cwd=str(ROOT), capture_output=True, text=True, timeout=timeout)
        if r.returncode != 0 or not os.path.exists(op):
            raise RuntimeError(f"history interpreter failed: {r.stderr[-800:]}")
        return json.load(open(op))


def run_item(item):
    if item.get("kind") == "rule_purity":
        return _rule_purity(item)
    from vf.core import rng_for

    rng = rng_for(item["seed"], PROPERTY, item["k"])
    hist = gen_history(rng, item["n_ops"])
    recs = _run_fresh(hist)
    res = dict(history=item["k"], ops=len(hist), sims=0, violations=[], singles=0, repeats_compared=0,
               state_changes=[], registry_growth=0, op_kinds={}, distinct_calls=0,
               sample=[(h["op"], h.get("date") or (h.get("call") or {}).get("date") or h.get("functions")) for h in hist[:8]])

    def viol(key, what, **kw):
        res["violations"].append(dict(key=key, what=what, history=hist, **kw))

    by_call = {}
    for h, r in zip(hist, recs):
        res["op_kinds"][h["op"]] = res["op_kinds"].get(h["op"], 0) + 1
        res["registry_growth"] += r.get("registry_growth", 0)
        if r.get("state_changed"):
            res["state_changes"].append((r["i"], h["op"], r["state_changed"][:4]))
            if h["op"] in ("sim", "vectorize"):
                viol("state:module_rebinding" if h["op"] == "vectorize" else "state:changed_by_simulation",
                     f"op {r['i']} ({h['op']}) changed module-level state: {r['state_changed'][:5]}")
        if "exception" in r and h["op"] != "sim":
            viol(f"exception:{h['op']}", f"op {r['i']} {h['op']} raises {r['exception']}")
        if h["op"] != "sim":
            continue
        res["sims"] += 1
        if h["call"].get("specs"):
            k_ = "sim_with_aggregation_specs:" + h["call"]["specs"]
            res["op_kinds"][k_] = res["op_kinds"].get(k_, 0) + 1
        for f in r["findings"]:
            viol(f.split(":")[0] + ":" + f.split(":")[1].split("(")[0].strip() if ":" in f else f,
                 f"op {r['i']}: caller-owned argument changed by the call: {f} (data form {h['call']['form']})")
        key = json.dumps(h["call"], sort_keys=True)
        by_call.setdefault(key, []).append((r["i"], r.get("digest"), r.get("exception")))
    # (2) identical calls at different positions
    for key, lst in by_call.items():
        if len(lst) > 1:
            res["repeats_compared"] += len(lst) - 1
            if len({(d, e) for _, d, e in lst}) > 1:
                viol("history:repeat_differs", f"identical calls at positions {[i for i, _, _ in lst]} of one history give different results", call=json.loads(key))
    # (3) each distinct call alone in a fresh interpreter
    res["distinct_calls"] = len(by_call)
    for key, lst in by_call.items():
        call = json.loads(key)
        single = _run_fresh([dict(op="env", slot=0, date=call["date"]),
                             dict(op="sim", slot=0, call=call, fresh_inplace=call.get("edited_groups", []),
                                  fresh_functions=call.get("edited_functions", []))])[1]
        res["singles"] += 1
        i, dg, exc = lst[-1]
        if (single.get("digest"), single.get("exception")) != (dg, exc):
            prefix = [(h["op"], h.get("date") or h.get("functions") or (h.get("call") or {}).get("date")) for h in hist[:i]]
            viol("history:differs_from_fresh_process" if not any(p[0] == "vectorize" for p in prefix) else "history:differs_after_vectorize",
                 f"call at position {i} gives digest {dg}/{exc} after the prefix {prefix[-6:]} but {single.get('digest')}/"
                 f"{single.get('exception')} alone in a fresh interpreter", call=call)
    return res


def summarize(results, tier, seed):
    ok_all = [r for r in results if "_harness_error" not in r]
    viol = [dict(key=v["key"], what=v["what"], witness=v, item=r["_item"]) for r in ok_all for v in r["violations"]]
    purity = [r for r in ok_all if r.get("kind") == "rule_purity"]
    ok = [r for r in ok_all if r.get("kind") != "rule_purity"]
    kinds = {}
    for r in ok:
        for k, v in r["op_kinds"].items():
            kinds[k] = kinds.get(k, 0) + v
    inconclusive = []
    if sum(r["singles"] for r in ok) < 10:
        inconclusive.append("fewer than 10 calls compared with a fresh interpreter")
    if sum(r["repeats_compared"] for r in ok) == 0:
        inconclusive.append("no repeated call inside a history")
    if kinds.get("vectorize", 0) == 0:
        inconclusive.append("no function rewrite inside any history")
    if sum(r["rules_run"] for r in purity) < 100:
        inconclusive.append("argument-purity sweep ran fewer than 100 rules")
    cov = dict(
        evaluations=sum(r["ops"] for r in ok) + sum(r["singles"] for r in ok),
        distinct_nontrivial=len(ok),
        rule="evaluation = one API call inside a history or alone in a fresh interpreter; distinct non-trivial = "
             "histories (each a different random sequence of >= 12 ops with at least one simulation)",
        histories=len(ok), ops_by_kind=kinds,
        rules_run_alone_with_argument_snapshots=sum(r["rules_run"] for r in purity),
        rules_skipped_in_purity_sweep=sum(r["rules_skipped"] for r in purity), simulations_in_histories=sum(r["sims"] for r in ok),
        distinct_calls_replayed_in_fresh_interpreters=sum(r["singles"] for r in ok),
        repeated_calls_compared=sum(r["repeats_compared"] for r in ok),
        module_state_changes_observed=[s for r in ok for s in r["state_changes"]][:10],
        registry_growth_observed=sum(r["registry_growth"] for r in ok),
        samples=[dict(history=r["history"], first_ops=r["sample"]) for r in ok[:3]],
    )
    return dict(coverage=cov, violations=viol, inconclusive=inconclusive,
                assumptions=["PYTHONHASHSEED=0 in every interpreter; digests are over columns sorted by name",
                             "growth of the TIME_DEPENDENT_FUNCTIONS registry through rewrites is reported, not judged (no result depends on it)"])

"""C16 - outputs are finite, the default targets non-negative and within the statutory caps.

Monitor: invariants over all-nodes traces of hostile-corner populations (zero everything, 1e6
incomes, 1e9 wealth, negative rental income, ages 0-100, up to ten children, zero rent) at every
change date >= 2015: no non-finite float anywhere; no negative default target; cap monitors that
read rates / ceilings / maxima from the parameters of that very run."""
from __future__ import annotations

import datetime

import numpy as np

PROPERTY = "C16"
LEVEL = "exploration"
CORNERS = [None, "huge", "zero", "negative"]


def plan(tier, seed):
    from vf import env
    from vf.core import rng_for

    r = rng_for(seed, PROPERTY, 0)
    ds = env.supported_change_dates()
    if tier == "quick":
        pick = sorted({datetime.date(2015, 1, 1), datetime.date(2018, 1, 1), datetime.date(2021, 1, 1), datetime.date(2023, 1, 1),
                       datetime.date(2024, 1, 1), *[ds[int(i)] for i in r.choice(len(ds), 4, replace=False)]})
    else:
        pick = ds
    items = [dict(date=str(d), k=k, seed=seed) for d in pick for k in range(8 if tier == "quick" else 16)]
    # the quantifier names "up to ten children": families with 0..10 children along a wage grid
    items += [dict(date=str(d), k=100, seed=seed, children_sweep=True) for d in pick]
    items += [dict(date=str(d), k=101, seed=seed, domain=True) for d in pick]
    return items


def _get(p, *path, default=None):
    o = p
    for k in path:
        if not isinstance(o, dict) or k not in o:
            return default
        o = o[k]
    return o


def run_item(item):
    from _gettsim.config import DEFAULT_TARGETS
    from vf import env, popgen
    from vf.core import rng_for

    d = datetime.date.fromisoformat(item["date"])
    rng = rng_for(item["seed"], PROPERTY, d.toordinal(), item["k"])
    params, functions = env.environment(d)
    corner = CORNERS[item["k"] % 4]
    if item.get("children_sweep"):
        import pandas as pd

        corner = "children_sweep"
        parts = []
        wages = [0.0, 300.0, 521.0, 700.0, 1000.0, 1500.0, 1999.0, 2000.0, 2001.0, 3000.0, 5000.0, 9000.0]
        for kids in range(0, 11):
            rows = [dict(p_id=0, hh_id=0, alter=40, p_id_einstandspartner=1, p_id_ehepartner=1),
                    dict(p_id=1, hh_id=0, alter=38, p_id_einstandspartner=0, p_id_ehepartner=0)]
            for c in range(kids):
                rows.append(dict(p_id=2 + c, hh_id=0, alter=int(1 + (2 * c) % 17), kind=True, p_id_elternteil_1=0, p_id_elternteil_2=1,
                                 p_id_kindergeld_empf=0))
            base = popgen.population(rng, d, n_hh=1, params=params, archetypes=["single"]).iloc[:1]
            fam = pd.concat([base] * len(rows), ignore_index=True)
            for col in fam.columns:
                if fam[col].dtype.kind == "f":
                    fam[col] = 0.0
                elif fam[col].dtype.kind == "b":
                    fam[col] = False
            for pc in popgen.POINTERS:
                fam[pc] = -1
            for i, r_ in enumerate(rows):
                for k_, v_ in r_.items():
                    fam.at[i, k_] = v_
            fam["geburtsjahr"] = d.year - fam["alter"]
            fam["jahr_renteneintr"] = fam["geburtsjahr"] + 67
            fam["in_ausbildung"] = fam["kind"] & (fam["alter"] >= 6)
            fam["gemeinsam_veranlagt"] = ~fam["kind"]
            fam["ges_pflegev_hat_kinder"] = (~fam["kind"]) & (kids > 0)
            fam["bruttokaltmiete_m_hh"] = 900.0
            fam["wohnfläche_hh"] = 110.0
            fam["mietstufe"] = 3
            fam["steuerklasse"] = np.where(fam["kind"], 1, 4)
            fam["arbeitsstunden_w"] = np.where(fam["kind"], 0.0, 38.0)
            fam["bruttolohn_m"] = np.where(fam["p_id"] == 1, 1200.0, 0.0)
            parts.append(popgen.replicate_with_wages(fam, wages, who=0))
        n_p = max(int(p["p_id"].max()) for p in parts) + 1
        n_h = max(int(p["hh_id"].max()) for p in parts) + 1
        for i, part in enumerate(parts):
            parts[i] = popgen.relabel(part, {int(p): int(p) + i * n_p for p in part["p_id"]}, {int(h): int(h) + i * n_h for h in part["hh_id"].unique()})
        df = pd.concat(parts, ignore_index=True)
        for col in parts[0].columns:
            df[col] = df[col].astype(parts[0][col].dtype)
    elif item.get("domain"):
        corner = "domain_sweep"
        df = popgen.domain_sweep(rng, d, params)
    else:
        df = popgen.population(rng, d, n_hh=int(rng.integers(6, 14)), params=params, corner=corner)
        df = popgen.branch_reach(rng, df, d, params)
    if item["k"] % 3 == 2:
        df["alter"] = np.where(rng.random(len(df)) < 0.15, rng.choice([0, 1, 17, 18, 24, 25, 64, 65, 66, 67, 99, 100], len(df)), df["alter"])
        df["geburtsjahr"] = d.year - df["alter"]
        df["kind"] = df["kind"] & (df["alter"] < 25)
        df["rentner"] = df["rentner"] & (df["alter"] >= 60)
        # keep the pension history consistent with the new age
        ok_em = (df["alter"] >= 22) & (df["alter"] < 63)
        df["voll_erwerbsgemind"] = df["voll_erwerbsgemind"] & ok_em
        df["teilw_erwerbsgemind"] = df["teilw_erwerbsgemind"] & ok_em
        em = df["voll_erwerbsgemind"] | df["teilw_erwerbsgemind"]
        entry = np.minimum(df["alter"], np.maximum(21, df["alter"] - rng.integers(0, 15, len(df))))
        df["jahr_renteneintr"] = np.where(em, df["geburtsjahr"] + entry,
                                          np.where(df["rentner"], np.minimum(df["geburtsjahr"] + 65, d.year), df["geburtsjahr"] + 67))
    res = dict(date=item["date"], corner=corner, pop=popgen.digest(df), violations=[], float_values=0, target_values=0,
               caps_checked={}, positive_counts={}, observations=[])

    def viol(key, what):
        res["violations"].append(dict(key=key, what=what, date=item["date"], corner=corner))

    try:
        T, nodes, roots, dag, fn = env.trace(df, params, functions)
    except Exception as e:  # noqa: BLE001
        viol(f"exception:{type(e).__name__}", f"simulation of a corner population raises {type(e).__name__}: {str(e)[:200]}")
        return res
    # finiteness of every computed column
    for t in nodes:
        a = T[t].to_numpy()
        if a.dtype.kind == "f":
            res["float_values"] += a.size
            if not np.all(np.isfinite(a)):
                i = int(np.argmin(np.isfinite(a)))
                viol(f"{t}:non_finite", f"{t} is {a[i]!r} for person {T['p_id'].iloc[i]} (alter {T['alter'].iloc[i]}, corner {corner})")
    # default targets are non-negative
    for t in DEFAULT_TARGETS:
        if t in T.columns:
            a = T[t].to_numpy().astype(float)
            res["target_values"] += a.size
            res["positive_counts"][t] = int((a > 0).sum())
            if (a < 0).any():
                i = int(np.argmin(a))
                viol(f"{t}:negative", f"default target {t} = {a[i]!r} for person {T['p_id'].iloc[i]} (corner {corner})")

    def cap(name, lhs, rhs, tol=1e-6):
        if lhs is None or rhs is None:
            return
        lhs, rhs = np.asarray(lhs, dtype=float), np.asarray(rhs, dtype=float)
        res["caps_checked"][name] = res["caps_checked"].get(name, 0) + int(lhs.size)
        bad = lhs > rhs + tol + 1e-9 * np.abs(rhs)
        if bad.any():
            i = int(np.argmax(lhs - rhs))
            viol(f"cap:{name}", f"{name}: {lhs[i]!r} exceeds its cap {rhs[i] if rhs.ndim else float(rhs)!r} for person {T['p_id'].iloc[i]}")

    col = lambda c: T[c].to_numpy().astype(float) if c in T.columns else None  # noqa: E731
    # benefits after the priority checks never exceed the entitlement before them
    cap("arbeitsl_geld_2_m_bg<=vor_vorrang", col("arbeitsl_geld_2_m_bg"), col("arbeitsl_geld_2_vor_vorrang_m_bg"))
    cap("wohngeld_m_wthh<=anspruchshöhe", col("wohngeld_m_wthh"), col("wohngeld_anspruchshöhe_m_wthh"))
    # a means-tested benefit never exceeds the assessed need (the benefit at zero income)
    cap("arbeitsl_geld_2_vor_vorrang_m_bg<=assessed need", col("arbeitsl_geld_2_vor_vorrang_m_bg"), col("arbeitsl_geld_2_regelbedarf_m_bg"), tol=0.01)
    if "_grunds_im_alter_mehrbedarf_schwerbeh_g_m_eg" in T.columns:
        cap("grunds_im_alter_m_eg<=assessed need", col("grunds_im_alter_m_eg"),
            col("arbeitsl_geld_2_regelbedarf_m_bg") + col("_grunds_im_alter_mehrbedarf_schwerbeh_g_m_eg"), tol=0.01)
    cap("kinderzuschl_m_bg<=nach_vermög_check", col("kinderzuschl_m_bg"), col("_kinderzuschl_nach_vermög_check_m_bg"))
    cap("kinderzuschl nach<=vor vermög_check", col("_kinderzuschl_nach_vermög_check_m_bg"), col("_kinderzuschl_vor_vermög_check_m_bg"))
    kmax = _get(params, "kinderzuschl", "maximum")
    if kmax is not None and "kindergeld_anspruch" in T.columns and "bg_id" in T.columns:
        n_kids = T.groupby("bg_id")["kindergeld_anspruch"].transform("sum").to_numpy().astype(float)
        cap("kinderzuschl vor vermög_check<=children entitled to Kindergeld x maximum",
            col("_kinderzuschl_vor_vermög_check_m_bg"), n_kids * float(kmax), tol=0.01)
    # contributions <= rate x ceiling (rates and ceilings of this run)
    sv = params["sozialv_beitr"]
    ost = T["wohnort_ost"].to_numpy()
    bbg_rv = _get(sv, "beitr_bemess_grenze_m", "ges_rentenv")
    if bbg_rv:
        ceil_rv = np.where(ost, bbg_rv["ost"], bbg_rv["west"])
        rate_rv = _get(sv, "beitr_satz", "ges_rentenv")
        if rate_rv is not None:
            cap("ges_rentenv_beitr_arbeitnehmer_m<=rate x ceiling", col("ges_rentenv_beitr_arbeitnehmer_m"), ceil_rv * rate_rv, tol=0.01)
        rate_av = _get(sv, "beitr_satz", "arbeitsl_v")
        if rate_av is not None:
            cap("arbeitsl_v_beitr_arbeitnehmer_m<=rate x ceiling", col("arbeitsl_v_beitr_arbeitnehmer_m"), ceil_rv * rate_av, tol=0.01)
    bbg_kv = _get(sv, "beitr_bemess_grenze_m", "ges_krankenv")
    if bbg_kv and "ges_krankenv_beitr_satz_arbeitnehmer" in T.columns:
        ceil_kv = np.where(ost, bbg_kv["ost"], bbg_kv["west"])
        # employees: own share of the rate; self-employed / pensioners may pay the full rate
        full = col("ges_krankenv_beitr_satz_arbeitnehmer") + (col("_ges_krankenv_beitr_satz_arbeitgeber") if "_ges_krankenv_beitr_satz_arbeitgeber" in T.columns else 0.1)
        rente_cap = col("ges_rente_m") if "ges_rente_m" in T.columns else 0.0
        cap("ges_krankenv_beitr_arbeitnehmer_m<=full rate x (ceiling + pension ceiling)", col("ges_krankenv_beitr_arbeitnehmer_m"),
            2 * ceil_kv * full, tol=0.01)
        if "ges_pflegev_beitr_satz_arbeitnehmer" in T.columns:
            cap("ges_pflegev_beitr_arbeitnehmer_m<=2 x full rate x ceiling", col("ges_pflegev_beitr_arbeitnehmer_m"),
                2 * ceil_kv * (2 * col("ges_pflegev_beitr_satz_arbeitnehmer") + 0.01), tol=0.01)
    # assessment bases never exceed the ceiling of their own branch (ceilings read from the parameters, not from the run)
    if bbg_kv:
        ceil_kv = np.where(ost, bbg_kv["ost"], bbg_kv["west"])
        for base in ("_ges_krankenv_bemessungsgrundlage_rente_m", "_ges_krankenv_bemessungsgrundlage_eink_selbständig",
                     "_ges_krankenv_bruttolohn_m", "_ges_krankenv_bruttolohn_reg_beschäftigt_m"):
            cap(f"{base}<=health ceiling", col(base), ceil_kv, tol=0.01)
        cap("_ges_krankenv_beitr_bemess_grenze_m<=health ceiling of the parameters", col("_ges_krankenv_beitr_bemess_grenze_m"), ceil_kv)
    if bbg_rv:
        cap("_ges_rentenv_beitr_bruttolohn_m<=pension ceiling", col("_ges_rentenv_beitr_bruttolohn_m"), ceil_rv, tol=0.01)
        cap("_ges_rentenv_beitr_bemess_grenze_m<=pension ceiling of the parameters", col("_ges_rentenv_beitr_bemess_grenze_m"), ceil_rv)
    # per income source: wage part (own share; self-employed the full rate) + pension part, each rate x health ceiling
    if bbg_kv and "ges_krankenv_beitr_satz_arbeitnehmer" in T.columns and "selbstständig" in T.columns:
        an = col("ges_krankenv_beitr_satz_arbeitnehmer")
        ag = col("_ges_krankenv_beitr_satz_arbeitgeber") if "_ges_krankenv_beitr_satz_arbeitgeber" in T.columns else an
        selbst = T["selbstständig"].to_numpy()
        pens = (col("sum_ges_rente_priv_rente_m") if "sum_ges_rente_priv_rente_m" in T.columns
                else col("priv_rente_m") + (col("ges_rente_m") if "ges_rente_m" in T.columns else 0.0))
        has_p = (pens > 0).astype(float)
        cap("ges_krankenv_beitr_rentner_m<=own rate x health ceiling", col("ges_krankenv_beitr_rentner_m"), an * ceil_kv, tol=0.01)
        cap("ges_krankenv_beitr_arbeitnehmer_m<=rate x ceiling per income source", col("ges_krankenv_beitr_arbeitnehmer_m"),
            np.where(selbst, an + ag, an) * ceil_kv + has_p * an * ceil_kv, tol=0.01)
        std = _get(sv, "beitr_satz", "ges_pflegev", "standard")
        if std is not None and "ges_pflegev_beitr_satz_arbeitnehmer" in T.columns:
            pan = col("ges_pflegev_beitr_satz_arbeitnehmer")
            cap("ges_pflegev_beitr_rentner_m<=(own + standard rate) x health ceiling", col("ges_pflegev_beitr_rentner_m"),
                (pan + float(std)) * ceil_kv, tol=0.01)
            cap("ges_pflegev_beitr_arbeitnehmer_m<=rate x ceiling per income source", col("ges_pflegev_beitr_arbeitnehmer_m"),
                np.where(selbst, pan + float(std), pan) * ceil_kv + has_p * (pan + float(std)) * ceil_kv, tol=0.01)
    # Elterngeld <= maximum + bonuses
    hb = _get(params, "elterngeld", "höchstbetrag")
    if hb is not None and "elterngeld_m" in T.columns:
        bonus = sum(col(c) for c in ("elterngeld_geschwisterbonus_m", "elterngeld_mehrlingsbonus_m") if c in T.columns)
        cap("elterngeld_m<=höchstbetrag+bonuses", col("elterngeld_m"), float(hb) + bonus + 0.01)
        # the bonuses themselves, bounded from the parameters alone: the base amount is at most the replacement rate x the
        # maximal income taken into account, the sibling bonus the surcharge on that (or its minimum)
        eg = params["elterngeld"]
        if all(k in eg for k in ("faktor", "max_zu_berücksichtigendes_einkommen", "geschwisterbonus_aufschlag", "geschwisterbonus_minimum")):
            base_max = max(float(eg["faktor"]) * float(eg["max_zu_berücksichtigendes_einkommen"]), float(hb))
            sib_max = max(float(eg["geschwisterbonus_aufschlag"]) * base_max, float(eg["geschwisterbonus_minimum"]))
            cap("elterngeld_basisbetrag_m<=rate x maximal income", col("elterngeld_basisbetrag_m"), base_max + 0.01)
            cap("elterngeld_geschwisterbonus_m<=surcharge x maximal base amount", col("elterngeld_geschwisterbonus_m"), sib_max + 0.01)
            ml = col("elterngeld_mehrlingsbonus_m")
            cap("elterngeld_m<=höchstbetrag+statutory sibling bonus+multiples bonus", col("elterngeld_m"),
                float(hb) + sib_max + (ml if ml is not None else 0.0) + 0.01)
    # income tax <= top rate x taxable income; soli <= rate x (tax + abgelt)
    tarif = _get(params, "eink_st", "eink_st_tarif")
    if tarif is not None and "eink_st_y_sn" in T.columns and "_zu_verst_eink_mit_kinderfreib_y_sn" in T.columns:
        top = float(np.max(tarif["rates"][0]))
        n_sn = T.groupby("sn_id")["p_id"].transform("count").to_numpy() if "sn_id" in T.columns else 1
        zve = np.maximum(col("_zu_verst_eink_mit_kinderfreib_y_sn"), col("_zu_verst_eink_ohne_kinderfreib_y_sn") if "_zu_verst_eink_ohne_kinderfreib_y_sn" in T.columns else 0)
        cap("eink_st_y_sn<=top rate x taxable income", col("eink_st_y_sn"), top * np.maximum(zve, 0) + 1.0)
    # solidarity surcharge <= nominal rate x (income tax with child allowance + capital income tax): the transition zone
    # only ever lowers it (the schedule itself is C18's subject; here the default target is capped)
    so = _get(params, "soli_st", "soli_st")
    if so is not None and "soli_st_y_sn" in T.columns and "eink_st_mit_kinderfreib_y_sn" in T.columns:
        rate = float(np.asarray(so["rates"])[0, -1])
        ab = col("abgelt_st_y_sn")
        cap("soli_st_y_sn<=nominal rate x (income tax + capital income tax)", col("soli_st_y_sn"),
            rate * (col("eink_st_mit_kinderfreib_y_sn") + (ab if ab is not None else 0.0)) + 0.01)
    res["observations"] = []
    res["sample"] = dict(date=item["date"], corner=corner, population=popgen.describe(df))
    return res


def summarize(results, tier, seed):
    ok = [r for r in results if "_harness_error" not in r]
    viol = [dict(key=v["key"], what=v["what"], witness=v, item=r["_item"]) for r in ok for v in r["violations"]]
    caps, pos = {}, {}
    for r in ok:
        for k, v in r["caps_checked"].items():
            caps[k] = caps.get(k, 0) + v
        for k, v in r["positive_counts"].items():
            pos[k] = pos.get(k, 0) + v
    inconclusive = []
    if len(caps) < 6:
        inconclusive.append(f"only {len(caps)} cap monitors could be evaluated")
    never_pos = [t for t, v in pos.items() if v == 0]
    if len(never_pos) > 3:
        inconclusive.append(f"default targets never positive in any run: {never_pos}")
    cov = dict(
        evaluations=len(ok),
        distinct_nontrivial=len({(r["date"], r["pop"]) for r in ok}),
        rule="evaluation = one all-nodes trace of a corner population (regimes: mixed, huge, zero, negative) at a date; "
             "distinct by (date, population digest)",
        float_values_checked_finite=sum(r["float_values"] for r in ok),
        target_values_checked_non_negative=sum(r["target_values"] for r in ok),
        cap_monitor_evaluations=caps, persons_with_positive_target=pos,
        observations=sorted({o for r in ok for o in r["observations"]})[:5],
        dates=sorted({r["date"] for r in ok}),
        samples=[r["sample"] for r in ok[:3] if "sample" in r],
    )
    return dict(coverage=cov, violations=viol, inconclusive=inconclusive,
                assumptions=["caps are those the statement names or the parameters encode; each cap reads rates / ceilings / maxima from the params of the same run",
                             "health / care caps are deliberately loose (full rate on wage and pension) - they catch missing ceilings, not small errors"])

"""C06 - a reform changes only what depends on it.

Monitor: differential all-nodes traces, baseline vs reformed environment on identical data.
The set of changed nodes must be a subset of descendants(users(g)) for a perturbed parameter
group g, resp. descendants(f) for a replaced function f; identical copies change nothing;
the caller's params / functions objects are unchanged by the run (deep snapshot)."""
from __future__ import annotations

import copy
import datetime
import functools
import inspect
import types

import numpy as np

PROPERTY = "C06"
LEVEL = "exploration"


def plan(tier, seed):
    from vf import env
    from vf.core import rng_for

    ds = env.supported_change_dates()
    r = rng_for(seed, PROPERTY, 11)
    if tier == "quick":
        dates = sorted({datetime.date(2022, 10, 1), ds[int(r.integers(0, len(ds)))]})
        chunks, pops = 16, 1
    else:
        dates, chunks, pops = ds, 8, 1
    items = [dict(date=str(d), k=k, chunk=c, chunks=chunks, seed=seed, tier=tier)
             for d in dates for k in range(pops) for c in range(chunks)]
    # historical dates: the part of the default targets that is computable there
    hist = [datetime.date(2003, 7, 1), datetime.date(2005, 7, 1), datetime.date(2009, 7, 1), datetime.date(2012, 7, 1)] if tier == "quick" else \
        [datetime.date(y, m, 1) for y in range(1996, 2015) for m in (1, 7)]
    items += [dict(date=str(d), k=0, chunk=c, chunks=4, seed=seed, tier=tier, historical=True) for d in hist for c in range(4)]
    # shared mutable objects between parameter groups, at every change date since 1984
    cd = [d for d in env.change_dates() if d.year >= 1984]
    items += [dict(kind="alias", dates=[str(d) for d in cd[i:i + 25]], seed=seed) for i in range(0, len(cd), 25)]
    return items


def perturb(obj, mode, path=()):
    """Return a perturbed deep copy of a params group."""
    if isinstance(obj, dict):
        return {k: (v if k == "datum" else perturb(v, mode, (*path, k))) for k, v in obj.items()}
    if isinstance(obj, np.ndarray):
        if obj.dtype.kind == "f":
            return np.where(np.isfinite(obj), obj * 1.07 if mode == "mul" else obj + 0.5, obj)
        return obj.copy()
    if isinstance(obj, bool) or obj is None or isinstance(obj, str):
        return obj
    if isinstance(obj, (float, np.floating)):
        if not np.isfinite(obj):
            return obj
        return type(obj)(obj * 1.07) if mode == "mul" else type(obj)(obj + 0.5)
    if isinstance(obj, (int, np.integer)):
        return obj if mode == "mul" else obj  # ints are often keys / counts / ages: leave
    return copy.deepcopy(obj)


def leaves(obj, path=()):
    if isinstance(obj, dict):
        for k, v in obj.items():
            if k != "datum":
                yield from leaves(v, (*path, k))
    elif isinstance(obj, (float, np.floating)) and np.isfinite(obj):
        yield path


def set_leaf(group, path, f):
    g = copy.deepcopy(group)
    o = g
    for k in path[:-1]:
        o = o[k]
    o[path[-1]] = f(o[path[-1]])
    return g


def identical_copy(f):
    g = types.FunctionType(f.__code__, f.__globals__, f.__name__, f.__defaults__, f.__closure__)
    g.__dict__.update(f.__dict__)
    g.__annotations__ = dict(f.__annotations__)
    g.__kwdefaults__ = f.__kwdefaults__
    g.__module__ = f.__module__
    g.__qualname__ = f.__qualname__
    g.__doc__ = f.__doc__
    return g


def modified(f):
    rt = f.__annotations__.get("return")

    @functools.wraps(f)
    def g(*a, **k):
        out = f(*a, **k)
        if rt is bool or isinstance(out, (bool, np.bool_)):
            return not out
        return out + 1

    return g


def changed_nodes(S0, S1, nodes):
    ch = []
    for t in nodes:
        a, b = S0[t].to_numpy(), S1[t].to_numpy()
        if a.dtype != b.dtype:
            ch.append(t)
        elif a.dtype.kind == "f":
            if not np.all((a == b) | (np.isnan(a) & np.isnan(b))):
                ch.append(t)
        elif not np.all(a == b):
            ch.append(t)
    return ch


def _alias_item(item):
    """No dict / array may be reachable from two different parameter groups (a reform of one group would
    silently change the other)."""
    from _gettsim.policy_environment import set_up_policy_environment

    res = dict(kind="alias", violations=[], runs=0, reforms=[], kinds={}, reform_failed=[], no_effect=0, nodes_changed_total=0,
               date="", pop="", environments=0, objects=0, intra_group_aliases=set())
    for ds in item["dates"]:
        params, _ = set_up_policy_environment(datetime.date.fromisoformat(ds))
        res["environments"] += 1
        seen = {}

        def walk(o, g, path):
            if isinstance(o, (dict, np.ndarray, list)):
                res["objects"] += 1
                if id(o) in seen and seen[id(o)][0] != g:
                    res["violations"].append(dict(key=f"shared_object:{seen[id(o)][0]}|{g}",
                                                  what=f"{ds}: params['{seen[id(o)][0]}']{seen[id(o)][1]} and params['{g}']{path} are the same "
                                                       f"mutable object: editing one parameter group changes the other"))
                elif id(o) in seen:
                    res["intra_group_aliases"].add(f"{g}:{seen[id(o)][1]}={path}")
                seen.setdefault(id(o), (g, path))
                if isinstance(o, dict):
                    for k, v in o.items():
                        walk(v, g, f"{path}[{k!r}]")

        for g, v in params.items():
            walk(v, g, "")
    res["intra_group_aliases"] = sorted(res["intra_group_aliases"])[:10]
    return res


def run_item(item):
    if item.get("kind") == "alias":
        return _alias_item(item)
    import networkx as nx

    from vf import env, popgen
    from vf.core import rng_for

    d = datetime.date.fromisoformat(item["date"])
    prng = rng_for(item["seed"], PROPERTY, d.toordinal(), item["k"])
    rng = rng_for(item["seed"], PROPERTY, d.toordinal(), item["k"], item["chunk"])
    params, functions = env.environment(d)
    df = popgen.population(prng, d, n_hh=9, params=params)
    df = df.iloc[prng.permutation(len(df))].reset_index(drop=True)
    TARGETS = None
    if item.get("historical"):
        df = popgen.historical_supplement(df, d)
        TARGETS = env.feasible_targets(functions, list(df.columns), data=df, params=params, candidates=env.HIST_CANDIDATES)
    S0, nodes, roots, dag, fn = env.trace(df, params, functions, TARGETS)
    res = dict(date=item["date"], pop=popgen.digest(df), runs=0, violations=[], reforms=[],
               kinds={}, reform_failed=[], no_effect=0, nodes_changed_total=0)

    def viol(key, what, **kw):
        res["violations"].append(dict(key=key, what=what, **kw))

    def users_of_group(g):
        u = set()
        for t in nodes:
            f = fn[t]
            if f"{g}_params" in inspect.signature(f).parameters:
                u.add(t)
            info = getattr(f, "__info__", None) or {}
            if info.get("params_key_for_rounding") == g:
                u.add(t)
        return u

    def allowed_from(srcs):
        out = set(srcs)
        for s in srcs:
            out |= nx.descendants(dag, s)
        return out

    def reform(kind, label, p2, f2, allowed, must_change=None):
        p_snap = copy.deepcopy(p2)
        f_parts = [x for x in (f2 if isinstance(f2, list) else [f2]) if isinstance(x, dict)]
        f_snaps = [dict(x) for x in f_parts]
        try:
            S1, nodes1, _, _, _ = env.trace(df, p2, f2, TARGETS)
        except Exception as e:  # noqa: BLE001
            res["reform_failed"].append(f"{kind}:{label}:{type(e).__name__}")
            return
        res["runs"] += 1
        res["kinds"][kind] = res["kinds"].get(kind, 0) + 1
        res["reforms"].append((kind, label))
        bad = env.deep_equal(p_snap, p2, "params")
        if bad:
            viol("mutation:params", f"the params passed by the caller were modified by the run: {bad}")
        for x, sn in zip(f_parts, f_snaps):
            if sn != x or any(sn[k] is not x[k] for k in x):
                viol("mutation:functions", f"a functions dict passed by the caller was modified by the run (reform {kind} {label}): "
                                           f"{[k for k in x if sn.get(k) is not x[k]][:4]}")
        if nodes1 != nodes:
            viol(f"graph:{kind}", f"reform {label} changes the set of nodes")
            return
        ch = changed_nodes(S0, S1, nodes)
        res["nodes_changed_total"] += len(ch)
        out = [t for t in ch if t not in allowed]
        if out:
            viol(f"{kind}:{label}->{out[0]}" if kind != "identical" else f"identical:{out[0]}",
                 f"reform {kind} {label} changes node {out[0]} (+{len(out) - 1} more) which does not depend on it",
                 changed_outside=out[:8])
        if must_change is not None and must_change not in ch:
            res["no_effect"] += 1

    # (a) identical copies
    if item["chunk"] == 0:
        reform("identical", "deepcopy(params)", copy.deepcopy(params), functions, set())
        reform("identical", "copy of all functions",
               params, {k: (identical_copy(f) if inspect.isfunction(f) else f) for k, f in functions.items()}, set())
        reform("identical", "functions as a list with one dict", params, [functions], set())
        reform("identical", "functions as a list of two dicts (second half of the rules in the second)", params,
               [dict(list(functions.items())[: len(functions) // 2]), dict(list(functions.items())[len(functions) // 2:])], set())
    # (a2) a caller replaces functions in place in the dict it was handed, then sets up the date again
    if item["chunk"] == 0:
        from _gettsim.policy_environment import set_up_policy_environment as _setup

        p_x, f_x = _setup(d)
        victims = [t for t in nodes if t in f_x and inspect.isfunction(f_x[t])][:: max(1, len(nodes) // 12)]
        for t in victims:
            f_x[t] = modified(f_x[t])
        for k_ in list(p_x):
            if isinstance(p_x[k_], dict):
                p_x[k_]["__edited__"] = 1
        p_y, f_y = _setup(d)
        reform("identical", "fresh set-up after in-place edits of an earlier environment", p_y, f_y, set())
    # (b) parameter groups
    groups = sorted(params)
    my_groups = [g for i, g in enumerate(groups) if i % item["chunks"] == item["chunk"]]
    for g in my_groups:
        allowed = allowed_from(users_of_group(g))
        for mode in ("mul", "add"):
            p2 = copy.deepcopy(params)
            p2[g] = perturb(params[g], mode)
            reform("group", f"{g}:{mode}", p2, functions, allowed)
        lv = list(leaves(params[g]))
        for i in rng.choice(len(lv), min(len(lv), 2 if item["tier"] == "quick" else 6), replace=False) if lv else []:
            p2 = copy.deepcopy(params)
            p2[g] = set_leaf(params[g], lv[i], lambda x: x * 1.5 + 1)
            reform("leaf", f"{g}/{'/'.join(map(str, lv[i]))}", p2, functions, allowed)
    # (b1) the way users write reforms: deep copy of the whole environment, then assign one leaf in place
    for g in my_groups:
        lv = list(leaves(params[g]))
        for i in rng.choice(len(lv), min(len(lv), 3 if item["tier"] == "quick" else 8), replace=False) if lv else []:
            p2 = copy.deepcopy(params)
            o = p2[g]
            for k in lv[i][:-1]:
                o = o[k]
            o[lv[i][-1]] = o[lv[i][-1]] * 1.5 + 1
            reform("leaf_inplace", f"{g}/{'/'.join(map(str, lv[i]))}", p2, functions, allowed_from(users_of_group(g)))
    # (b2) rounding specifications: change base / direction / add the optional offset for ONE function
    for g in my_groups:
        specs = params[g].get("rounding", {}) if isinstance(params[g], dict) else {}
        names = [t for t in specs if t in nodes]
        for t in names[: (2 if item["tier"] == "quick" else 6)]:
            for label, edit in (("offset", dict(to_add_after_rounding=5)), ("base", dict(base=specs[t]["base"] * 10)),
                                ("direction", dict(direction="up" if specs[t]["direction"] != "up" else "down"))):
                p2 = copy.deepcopy(params)
                p2[g]["rounding"][t].update(edit)
                reform("rounding", f"{g}/rounding/{t}:{label}", p2, functions, allowed_from({t}))
    # (c) functions
    rules = [t for t in nodes if t in functions and inspect.isfunction(functions[t])
             and not (getattr(functions[t], "__info__", None) or {}).get("skip_vectorization")]
    mine = [t for i, t in enumerate(rules) if i % item["chunks"] == item["chunk"]]
    if item["tier"] == "quick":
        mine = [mine[i] for i in rng.choice(len(mine), min(len(mine), 10), replace=False)]
    for t in mine:
        f2 = dict(functions)
        f2[t] = identical_copy(functions[t])
        reform("identical", f"copy of {t}", params, f2, set())
        f2 = dict(functions)
        f2[t] = modified(functions[t])
        reform("function", t, params, f2, allowed_from({t}), must_change=t)
    # (c2) the list form of the functions argument: [environment dict, user function] and [environment dict, {name: function}],
    #      the same environment dict re-used for the next, unrelated reform and finally for a baseline run
    if len(mine) >= 2:
        shared = dict(functions)
        t1, t2 = mine[0], mine[-1]
        reform("function_list", t1, params, [shared, modified(functions[t1])], allowed_from({t1}), must_change=t1)
        reform("function_list", t2, params, [shared, {t2: modified(functions[t2])}], allowed_from({t2}), must_change=t2)
        reform("identical", f"baseline with the environment dict that went through list-form reforms of {t1}, {t2}", params, shared, set())
    # (c3) the reform lives in a user module that is named like the package module it reforms and imports that module's
    #      other functions (a common way to write a reform file); passed as import string and as path.  Only the function
    #      the user module DEFINES may enter the graph.
    import importlib
    import pathlib
    import sys as _sys
    import tempfile

    for t in [x for x in mine if (functions[x].__module__ or "").startswith("_gettsim.")][:2]:
        f0 = functions[t]
        base = f0.__module__.rpartition(".")[2]
        with tempfile.TemporaryDirectory() as td:
            src = (f"from {f0.__module__} import *  # noqa\n"
                   f"from {f0.__module__} import {f0.__name__} as _orig\n"
                   f"import {f0.__module__} as _m\n"
                   "from vf.checks.c06 import modified as _modified\n"
                   "for _n in dir(_m):\n"
                   "    if not _n.startswith('__'):\n"
                   "        globals().setdefault(_n, getattr(_m, _n))\n"
                   f"{t} = _modified(_orig)\n"
                   f"{t}.__module__ = __name__\n")
            pathlib.Path(td, base + ".py").write_text(src, encoding="utf-8")
            _sys.path.insert(0, td)
            try:
                _sys.modules.pop(base, None)
                importlib.invalidate_caches()
                reform("function_module_string", t, params, [functions, base], allowed_from({t}), must_change=t)
                reform("function_module_path", t, params, [functions, pathlib.Path(td, base + ".py")], allowed_from({t}), must_change=t)
            finally:
                _sys.path.remove(td)
                _sys.modules.pop(base, None)
    # (d) a user function that reads one of its arguments in another time unit (weekly instead of monthly):
    #     the derived weekly node must not disturb its monthly source nor anything else outside descendants(f)
    import re as _re

    unit_m = _re.compile(r"(?P<base>.*_)m(?P<agg>_hh|_wthh|_fg|_bg|_eg|_ehe|_sn)?$")
    done = 0
    for t in mine:
        f = functions[t]
        margs = [a for a in inspect.signature(f).parameters if unit_m.match(a) and a in nodes and a not in df.columns]
        if not margs or done >= (2 if item["tier"] == "quick" else 6):
            continue
        a = margs[0]
        mm = unit_m.match(a)
        aw = f"{mm.group('base')}w{mm.group('agg') or ''}"
        if aw in nodes or aw in df.columns or aw in functions:
            continue
        params_sig = list(inspect.signature(f).parameters)
        new_args = [aw if x == a else x for x in params_sig]
        ns = {"_f": f, "_fac": (365.25 / 7) / 12.0}
        src = (f"def _g({', '.join(new_args)}):\n    return _f(" + ", ".join(f"{x}={(aw + ' * _fac') if x == a else x}" for x in params_sig) + ")\n")
        exec(src, ns)  # noqa: S102
        g = ns["_g"]
        g.__name__ = f.__name__
        g.__annotations__ = {**{(aw if k == a else k): v for k, v in f.__annotations__.items()}}
        if hasattr(f, "__info__"):
            g.__info__ = dict(f.__info__)
        f2 = dict(functions)
        f2[t] = g
        try:
            S1, nodes1, _, _, _ = env.trace(df, params, f2, TARGETS)
        except Exception as e:  # noqa: BLE001
            res["reform_failed"].append(f"other_unit:{t}:{type(e).__name__}")
            continue
        done += 1
        res["runs"] += 1
        res["kinds"]["function_other_unit"] = res["kinds"].get("function_other_unit", 0) + 1
        res["reforms"].append(("function_other_unit", f"{t}({aw})"))
        common = [x for x in nodes if x in S1.columns]
        allowed = allowed_from({t})
        ch = [x for x in changed_nodes(S0, S1, common) if x not in allowed]
        # the value of t itself may differ in the last bits (weekly round trip); everything outside descendants(t) must be bit-identical
        if ch:
            viol(f"function_other_unit:{aw}->{ch[0]}", f"replacing {t} by a function that reads {aw} instead of {a} changes {ch[0]} "
                                                      f"(+{len(ch) - 1} more), which does not depend on {t}", changed_outside=ch[:8])
    res["sample"] = dict(date=item["date"], population=popgen.describe(df), reforms=res["reforms"][:10])
    return res


def summarize(results, tier, seed):
    ok = [r for r in results if "_harness_error" not in r]
    viol = [dict(key=v["key"], what=v["what"], witness=v, item=r["_item"]) for r in ok if r.get("kind") != "alias" for v in r["violations"]]
    alias = [r for r in ok if r.get("kind") == "alias"]
    ok = [r for r in ok if r.get("kind") != "alias"]
    viol += [dict(key=v["key"], what=v["what"], witness=v, item=r["_item"]) for r in alias for v in r["violations"]]
    cases = {(r["pop"], r["date"], *x) for r in ok for x in r["reforms"]}
    kinds = {}
    for r in ok:
        for k, v in r["kinds"].items():
            kinds[k] = kinds.get(k, 0) + v
    inconclusive = [f"no reform of kind {k} observed" for k in ("identical", "group", "function", "rounding") if not kinds.get(k)]
    failed = [x for r in ok for x in r["reform_failed"]]
    runs = sum(r["runs"] for r in ok)
    if failed and len(failed) > 0.3 * (runs + len(failed)):
        inconclusive.append(f"{len(failed)} of {runs + len(failed)} reforms made the simulation raise")
    cov = dict(
        evaluations=runs,
        distinct_nontrivial=len({c for c in cases if c[2] != "identical"}),
        rule="evaluation = one all-nodes run under a reformed environment compared bitwise with the baseline; "
             "distinct = (population, date, kind, reform label); non-trivial = the reform is not an identical copy",
        reforms_by_kind=kinds,
        identical_copy_runs=kinds.get("identical", 0),
        reforms_that_raised=sorted(set(failed))[:20],
        function_reforms_without_effect_on_own_column=sum(r["no_effect"] for r in ok),
        nodes_changed_total=sum(r["nodes_changed_total"] for r in ok),
        dates=sorted({r["date"] for r in ok}),
        historical_dates=sorted({r["date"] for r in ok if r["_item"].get("historical")}),
        environments_scanned_for_shared_objects=sum(r["environments"] for r in alias),
        mutable_objects_scanned=sum(r["objects"] for r in alias),
        aliases_within_one_group_observed=sorted({a for r in alias for a in r["intra_group_aliases"]})[:8],
        samples=[r["sample"] for r in ok[:2]],
    )
    return dict(coverage=cov, violations=viol, inconclusive=inconclusive,
                assumptions=["users(g) = nodes with a <g>_params argument or rounding through g, taken from signatures of the functions of that run",
                             "integer parameter leaves (ages, counts, keys) are not perturbed"])

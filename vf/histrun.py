"""Executes a history of API calls in THIS (fresh) interpreter and records, per call, canonical
digests of results, deep snapshots of caller-owned arguments before/after, and fingerprints of
process-global state.  Usage:  python -m vf.histrun history.json out.json

Ops (JSON):
  {"op": "env", "slot": s, "date": d}
  {"op": "reform", "slot": s2, "from": s, "group": g | null, "function": f | null}
  {"op": "sim", "slot": s, "call": {...}}      call = {date, reform, pop:{seed,n_hh,corner}, targets, rounding, debug, form}
  {"op": "vectorize", "slot": s, "functions": [names]}
"""
from __future__ import annotations

import copy
import datetime
import hashlib
import json
import sys
import warnings

from vf.core import bootstrap_paths

bootstrap_paths()
warnings.filterwarnings("ignore")

import numpy as np  # noqa: E402
import pandas as pd  # noqa: E402

from vf import env, popgen  # noqa: E402
from vf.core import rng_for  # noqa: E402


def frame_digest(df):
    h = hashlib.sha1()
    for c in sorted(df.columns):
        a = df[c].to_numpy()
        h.update(c.encode())
        h.update(str(a.dtype).encode())
        h.update(np.ascontiguousarray(a).tobytes() if a.dtype != object else repr(a.tolist()).encode())
    h.update(repr(list(df.index[:5])).encode())
    return h.hexdigest()[:20]


def data_digest(data):
    if isinstance(data, pd.DataFrame):
        return frame_digest(data) + ":" + ",".join(map(str, data.dtypes.tolist()))[:0]
    h = hashlib.sha1()
    for k in sorted(data):
        a = data[k].to_numpy()
        h.update(k.encode())
        h.update(str(a.dtype).encode())
        h.update(np.ascontiguousarray(a).tobytes())
    return h.hexdigest()[:20]


def build_population(spec, date, params):
    rng = rng_for(spec["seed"], "C14pop", spec["n_hh"])
    df = popgen.population(rng, date, n_hh=spec["n_hh"], params=params, corner=spec.get("corner"))
    v = spec.get("variant")
    # near-identical populations: most arrays byte-identical to the base population, one aspect changed
    # (state keyed on part of the inputs would hand back stale results)
    if v == "move_children":
        kids = np.where((df["p_id_elternteil_1"].to_numpy() >= 0) & (df["alter"].to_numpy() < 25)
                        & (df["p_id_einstandspartner"].to_numpy() < 0))[0][::2]
        if len(kids):
            df.loc[kids, "hh_id"] = int(df["hh_id"].max()) + 1 + np.arange(len(kids))
            df["eigenbedarf_gedeckt"] = df["eigenbedarf_gedeckt"] & ~df.index.isin(kids)
            df["alleinerz"] = False
    elif v == "permute_p_ids":
        ids = df["p_id"].tolist()
        df = popgen.relabel(df, dict(zip(ids, ids[::-1])), None)
    elif v == "reverse_rows":
        df = df.iloc[::-1].reset_index(drop=True)
    elif v == "scale_wages":
        df["bruttolohn_m"] = np.round(df["bruttolohn_m"] * 1.1, 2)
    elif v == "swap_households":
        hh = sorted(df["hh_id"].unique().tolist())
        df = popgen.relabel(df, None, dict(zip(hh, hh[::-1])))
    if date.year < 2015:  # amounts of branches that are not implemented for those years come as data
        df = popgen.historical_supplement(df, date)
    return df


def apply_reform(params, functions, reform):
    from vf.checks.c06 import modified, perturb

    if not reform:
        return params, functions
    p2, f2 = params, functions
    if reform.get("group"):
        p2 = copy.deepcopy(params)
        p2[reform["group"]] = perturb(params[reform["group"]], "mul")
    if reform.get("function") and reform["function"] in functions:
        g = modified(functions[reform["function"]])
        if reform.get("form") == "list_func":  # the list forms hand the caller's environment dict itself to the call
            f2 = [functions, g]
        elif reform.get("form") == "list_dict":
            f2 = [functions, {reform["function"]: g}]
        else:
            f2 = dict(functions)
            f2[reform["function"]] = g
    return p2, f2


def inplace_reform(params, group):
    """The caller edits the parameters it was handed (the usual way to write a reform)."""
    def rec(o):
        if isinstance(o, dict):
            for k in list(o):
                if k == "datum":
                    continue
                v = o[k]
                if isinstance(v, dict):
                    rec(v)
                elif isinstance(v, np.ndarray) and v.dtype.kind == "f":
                    v[np.isfinite(v)] *= 1.07
                elif isinstance(v, float) and np.isfinite(v):
                    o[k] = v * 1.07
    rec(params[group])


def inplace_function(functions, name):
    """The caller assigns a reformed function into the dict it was handed."""
    from vf.checks.c06 import modified

    if name in functions and not getattr(functions[name], "__vf_modified__", False):
        g = modified(functions[name])
        g.__vf_modified__ = True
        functions[name] = g


def make_data(df, form):
    if form == "df":
        return df.copy()
    if form == "dict":
        return {c: df[c].copy() for c in df.columns}
    if form == "dict_convert":  # lossless other dtypes that need conversion
        d = {c: df[c].copy() for c in df.columns}
        d["alter"] = d["alter"].astype(float)
        d["kind"] = d["kind"].astype(np.int64)
        d["geburtsjahr"] = d["geburtsjahr"].astype(float)
        return d
    if form == "df_convert":
        d = df.copy()
        d["alter"] = d["alter"].astype(float)
        d["weiblich"] = d["weiblich"].astype(float)
        return d
    raise ValueError(form)


def state_fp():
    """{module: {name: id}} for functions and dicts of every _gettsim module + config globals."""
    out = {}
    for mn, mod in list(sys.modules.items()):
        if mn.startswith("_gettsim") and mod is not None and not mn.startswith("_gettsim_tests"):
            out[mn] = {k: (id(v), _content(v) if k != "TIME_DEPENDENT_FUNCTIONS" else 0) for k, v in vars(mod).items()
                       if not k.startswith("__") and (callable(v) or isinstance(v, (dict, list, bool, str, int, float)))}
    return out


def _content(v):
    """content digest of module-level containers (identity alone does not see an in-place edit)"""
    if isinstance(v, (dict, list)):
        try:
            return hashlib.sha1(repr(v).encode()).hexdigest()[:12]
        except Exception:  # noqa: BLE001
            return 0
    return 0


SPECS = {
    # user-provided aggregation specs: two re-define columns GETTSIM defines itself, one adds new columns
    "override_group": (dict(anz_kinder_hh=dict(source_col="kind_bis_17", aggr="sum"),
                            anz_erwachsene_fg=dict(source_col="rentner", aggr="sum")), {}),
    "override_pid": ({}, dict(ges_pflegev_anz_kinder_bis_24_elternteil_1=dict(
        p_id_to_aggregate_by="p_id_kinderfreib_empfänger_1", source_col="kind_bis_17", aggr="sum"))),
    "new": (dict(verif_lohn_m_hh=dict(source_col="bruttolohn_m", aggr="sum")),
            dict(verif_kinder_des_elternteils=dict(p_id_to_aggregate_by="p_id_elternteil_1", source_col="kind", aggr="sum"))),
}


def diff_fp(a, b):
    ch = []
    for mn in a:
        if mn in b:
            for k in set(a[mn]) | set(b[mn]):
                if a[mn].get(k) != b[mn].get(k):
                    ch.append(f"{mn}.{k}")
    return sorted(ch)


def run_history(history):
    from _gettsim.config import DEFAULT_TARGETS
    from _gettsim.policy_environment import set_up_policy_environment
    from _gettsim.shared import TIME_DEPENDENT_FUNCTIONS
    from _gettsim.vectorization import make_vectorizable

    slots = {}
    records = []
    for i, op in enumerate(history):
        rec = dict(i=i, op=op["op"], findings=[])
        fp0 = state_fp()
        reg0 = sum(len(v) for v in TIME_DEPENDENT_FUNCTIONS.values())
        try:
            if op["op"] == "env":
                d = datetime.date.fromisoformat(op["date"])
                slots[op["slot"]] = (*set_up_policy_environment(d), d)
            elif op["op"] == "reform":
                p, f, d = slots[op["from"]]
                snap = copy.deepcopy(p)
                p2, f2 = apply_reform(p, f, op)
                slots[op["slot"]] = (p2, f2, d)
                if env.deep_equal(snap, p, "params"):
                    rec["findings"].append("harness: reform modified the base params")
            elif op["op"] == "reform_inplace":
                p, f, d = slots[op["slot"]]
                inplace_reform(p, op["group"])
            elif op["op"] == "replace_function_inplace":
                p, f, d = slots[op["slot"]]
                inplace_function(f, op["function"])
            elif op["op"] == "vectorize":
                p, f, d = slots[op["slot"]]
                n = 0
                for name in op["functions"]:
                    if name in f:
                        try:
                            make_vectorizable(f[name], "numpy")
                            n += 1
                        except Exception:  # noqa: BLE001
                            pass
                rec["rewritten"] = n
            elif op["op"] == "sim":
                call = op["call"]
                p, f, d = slots[op["slot"]]
                assert str(d) == call["date"]
                if op.get("fresh_inplace"):  # replay alone: the same edits are made after set-up
                    for g in op["fresh_inplace"]:
                        inplace_reform(p, g)
                for fname in op.get("fresh_functions", []):
                    inplace_function(f, fname)
                p, f = apply_reform(p, f, call.get("reform"))
                df = build_population(call["pop"], d, p)
                data = make_data(df, call["form"])
                if call["targets"] == "default":
                    targets = list(DEFAULT_TARGETS)
                elif call["targets"] == "feasible":  # before 2015: the computable part of the default targets (+ a few inner nodes)
                    targets = env.feasible_targets(f, list(df.columns), data=df, params=copy.deepcopy(p),
                                                   candidates=env.HIST_CANDIDATES)
                else:
                    targets = list(call["targets"])
                # snapshots of caller-owned arguments
                d_before = data_digest(data)
                d_ids = {k: id(v) for k, v in data.items()} if isinstance(data, dict) else None
                d_dtypes = {k: str(v.dtype) for k, v in (data.items() if isinstance(data, dict) else data.items())}
                kw = {}
                if call.get("specs"):
                    g_specs, p_specs = copy.deepcopy(SPECS[call["specs"]])
                    kw = dict(aggregate_by_group_specs=g_specs, aggregate_by_p_id_specs=p_specs)
                    if call["specs"] == "new":
                        targets = [*targets, "verif_lohn_m_hh", "verif_kinder_des_elternteils"]
                    s_snap = copy.deepcopy(kw)
                p_snap = copy.deepcopy(p)
                f_dict = f[0] if isinstance(f, list) else f
                f_snap = dict(f_dict)
                t_snap = list(targets)
                with warnings.catch_warnings():
                    warnings.simplefilter("ignore")
                    out = env.compute_taxes_and_transfers(data, p, f, targets=targets, rounding=call["rounding"],
                                                          debug=call["debug"], **kw)
                rec["digest"] = frame_digest(out)
                rec["columns"] = hashlib.sha1(",".join(out.columns).encode()).hexdigest()[:12]
                rec["call"] = call
                if data_digest(data) != d_before:
                    rec["findings"].append(f"mutation:data_values({call['form']})")
                if d_ids is not None and {k: id(v) for k, v in data.items()} != d_ids:
                    changed = [k for k in data if id(data[k]) != d_ids.get(k)]
                    rec["findings"].append(f"mutation:data_dict: columns {changed[:4]} of the caller's dict were replaced")
                now_dtypes = {k: str(v.dtype) for k, v in data.items()}
                if now_dtypes != d_dtypes:
                    rec["findings"].append("mutation:data_dtypes")
                bad = env.deep_equal(p_snap, p, "params")
                if bad:
                    rec["findings"].append(f"mutation:params: {bad}")
                if f_snap != f_dict or any(f_snap.get(k) is not f_dict[k] for k in f_dict):
                    rec["findings"].append("mutation:functions")
                if t_snap != targets:
                    rec["findings"].append("mutation:targets")
                if kw and kw != s_snap:
                    rec["findings"].append("mutation:aggregation_specs")
        except Exception as e:  # noqa: BLE001
            rec["exception"] = f"{type(e).__name__}: {str(e)[:200]}"
        ch = diff_fp(fp0, state_fp())
        if ch:
            rec["state_changed"] = ch[:10]
        rec["registry_growth"] = sum(len(v) for v in TIME_DEPENDENT_FUNCTIONS.values()) - reg0
        records.append(rec)
    return records


if __name__ == "__main__":
    hist = json.loads(open(sys.argv[1]).read())
    out = run_history(hist)
    with open(sys.argv[2], "w") as fh:
        json.dump(out, fh)

"""Node-local comparison of two all-nodes traces (DESIGN.md section 0).

A trace is a DataFrame holding every function node and every input column, one row per
person.  `compare` aligns two traces by p_id and walks the nodes in topological order.
For every node it decides

    EQ    bit-identical values (ids: identical partition),
    NOISE differs, but within the summation-order bound of a float sum / mean aggregate,
    DIFF  differs beyond that.

A *violation* is a node whose own inputs all agree (EQ) but whose output differs: the
first node whose production value is not a function of its inputs.  Differences below a
DIFF parent are propagated, not reported again.  A node whose parents differ only by
NOISE and whose output differs by more than a (generous) propagated bound is counted as
`noise_amplified` and is neither a violation nor "held".
"""
from __future__ import annotations

import numpy as np

ID_COLS = {"wthh_id", "fg_id", "bg_id", "eg_id", "ehe_id", "sn_id", "hh_id"}


def same_partition(a, b):
    """Do two id vectors induce the same partition?"""
    fa, fb = {}, {}
    for x, y in zip(a.tolist(), b.tolist()):
        if fa.setdefault(x, y) != y or fb.setdefault(y, x) != x:
            return False
    return True


def _eq(a, b):
    if a.dtype.kind == "f" or b.dtype.kind == "f":
        a = a.astype(float)
        b = b.astype(float)
        return (a == b) | (np.isnan(a) & np.isnan(b))
    return a == b


def compare(tA, tB, nodes, dag, kinds, pid_map=None, float_sum_nodes=None,
            id_nodes=ID_COLS, check_dtype=False, restrict_to=None):
    """Compare trace B against trace A.

    tA, tB : DataFrames with column p_id.  B may contain more persons than A.
    pid_map: maps A's p_id -> B's p_id (identity if None).
    Returns dict(violations=[...], noise=[...], amplified=[...], compared=int, rows=int).
    """
    pa = tA["p_id"].to_numpy()
    pb = tB["p_id"].to_numpy()
    pos_b = {int(p): i for i, p in enumerate(pb)}
    want = [int(p) if pid_map is None else int(pid_map[int(p)]) for p in pa]
    idx = np.array([pos_b[p] for p in want])
    status = {}
    out = dict(violations=[], noise=[], amplified=[], compared=0, rows=len(pa), propagated=0)
    # inputs
    for c in tA.columns:
        if c in nodes:
            continue
        if c not in tB.columns:
            continue
        a = tA[c].to_numpy()
        b = tB[c].to_numpy()[idx]
        if c == "p_id" or c.startswith("p_id_") or c in id_nodes:
            status[c] = "EQ"  # identifiers are compared up to relabelling by the caller
        else:
            status[c] = "EQ" if bool(np.all(_eq(a, b))) else "DIFF"
    for n in nodes:
        if n not in tA.columns or n not in tB.columns:
            continue
        if restrict_to is not None and n not in restrict_to:
            continue
        a = tA[n].to_numpy()
        b = tB[n].to_numpy()[idx]
        out["compared"] += 1
        parents = [p for p in dag.predecessors(n)] if n in dag else []
        pst = [status.get(p, "EQ") for p in parents]
        if n in id_nodes or n.endswith("_id"):
            same = same_partition(a, b)
            if same:
                status[n] = "EQ"
            elif "DIFF" in pst:
                status[n] = "DIFF"
                out["propagated"] += 1
            else:
                status[n] = "DIFF"
                out["violations"].append(dict(node=n, kind="partition", detail=_first_partition_diff(pa, a, b)))
            continue
        if n.startswith("p_id_") and pid_map is not None:
            # a computed pointer column: compare through the id map
            a = np.array([pid_map.get(int(x), int(x)) if x >= 0 else int(x) for x in a])
        if check_dtype and a.dtype != b.dtype:
            out["violations"].append(dict(node=n, kind="dtype", detail=f"{a.dtype} vs {b.dtype}"))
        eq = _eq(a, b)
        if bool(np.all(eq)):
            status[n] = "EQ"
            continue
        i = int(np.argmin(eq))
        aa = a.astype(float)
        bb = b.astype(float)
        err = float(np.nanmax(np.abs(aa - bb)))
        scale = float(max(np.nanmax(np.abs(aa)), np.nanmax(np.abs(bb)), 1.0))
        witness = dict(node=n, kind=kinds.get(n, "?"), p_id=int(pa[i]), a=a[i].item(), b=b[i].item(),
                       max_abs_diff=err, parents={p: status.get(p, "EQ") for p in parents})
        if "DIFF" in pst:
            status[n] = "DIFF"
            out["propagated"] += 1
        elif all(s == "EQ" for s in pst):
            is_fsum = (kinds.get(n) in ("agg_group", "agg_pid")) and a.dtype.kind == "f"
            if float_sum_nodes is not None:
                is_fsum = n in float_sum_nodes
            if is_fsum and err <= 1e-12 * scale:
                status[n] = "NOISE"
                out["noise"].append(witness)
            else:
                status[n] = "DIFF"
                out["violations"].append(witness)
        else:  # some parent NOISE, none DIFF
            if err <= 1e-9 * scale:
                status[n] = "NOISE"
            else:
                status[n] = "DIFF"
                out["amplified"].append(witness)
    out["status_counts"] = {
        s: sum(1 for v in status.values() if v == s) for s in ("EQ", "NOISE", "DIFF")
    }
    return out


def _first_partition_diff(pids, a, b):
    fa, fb = {}, {}
    for p, x, y in zip(pids.tolist(), a.tolist(), b.tolist()):
        if fa.setdefault(x, y) != y or fb.setdefault(y, x) != x:
            return f"person {p}: id {x} in run A vs {y} in run B breaks the 1:1 correspondence of groups"
    return ""

"""Independent, deliberately naive reference models.

* ParamsRef    - forward-fold resolver over the raw parameter YAML (no recursion into dates)
* piecewise    - exact (fractions.Fraction) piecewise-polynomial schedules from raw pieces
* rounding     - statutory rounding specs straight from the raw YAML
* units        - set-based construction of the derived units (C12)
"""
from __future__ import annotations

import copy
import datetime
import math
from fractions import Fraction

import numpy as np

META = ("note", "reference", "deviation_from", "access_different_date")
ABSENT = object()


def _is_date(k):
    return isinstance(k, datetime.date)


def deep_merge(base, dev):
    """Leaves of `dev` overwrite / are inserted into a copy of `base`."""
    if not isinstance(dev, dict):
        return copy.deepcopy(dev)
    out = copy.deepcopy(base) if isinstance(base, dict) else {}
    for k, v in dev.items():
        if isinstance(v, dict):
            out[k] = deep_merge(out.get(k), v)
        else:
            out[k] = copy.deepcopy(v)
    return out


class ParamsRef:
    def __init__(self, load_raw):
        """load_raw(group) -> raw YAML dict of that group."""
        self._load = load_raw
        self._raw = {}

    def raw(self, g):
        if g not in self._raw:
            self._raw[g] = self._load(g)
        return self._raw[g]

    def entries(self, g, p):
        r = self.raw(g)[p]
        return sorted(((k, v) for k, v in r.items() if _is_date(k)), key=lambda kv: kv[0])

    # ------------------------------------------------------------- one parameter
    def value(self, g, p, date, _depth=0):
        """Value of parameter p of group g in force at `date` (ABSENT if none)."""
        if _depth > 8:
            raise RecursionError(f"deviation chain too deep at {g}.{p}")
        raw_p = self.raw(g)[p]
        ent = self.entries(g, p)
        if not ent:
            return ABSENT
        if ent[0][0] > date:
            # before the first entry: only defined if the first entry deviates from another parameter
            e0 = ent[0][1]
            dv = e0.get("deviation_from") if isinstance(e0, dict) else None
            if dv and "." in dv:
                g2, p2 = dv.split(".")
                return self.value(g2, p2, date, _depth + 1)
            return ABSENT
        state = ABSENT  # folded forward over all entries up to `date`
        for d, e in ent:
            if d > date:
                break
            if "scalar" in e:
                state = ("scalar", math.inf if e["scalar"] == "inf" else e["scalar"])
                continue
            vals = {k: v for k, v in e.items() if k not in META}
            dv = e.get("deviation_from")
            if dv == "previous":
                prev = self._materialise(state, d - datetime.timedelta(days=1), _depth)
                state = ("dict", self._apply(prev, vals))
            elif dv and "." in dv:
                state = ("other", dv, vals)
            else:
                head = {k: raw_p[k] for k in ("type", "progressionsfaktor") if k in raw_p}
                head.update(copy.deepcopy(vals))
                state = ("dict", head)
        return self._materialise(state, date, _depth)

    @staticmethod
    def _apply(base, vals):
        if not isinstance(base, dict):
            raise KeyError("deviation from a value that is not a mapping")
        out = copy.deepcopy(base)
        for k, v in vals.items():
            if isinstance(v, dict):
                if k not in out:
                    raise KeyError(k)
                out[k] = deep_merge(out[k], v)
            else:
                out[k] = copy.deepcopy(v)
        return out

    def _materialise(self, state, date, depth):
        if state is ABSENT:
            return ABSENT
        if state[0] == "scalar":
            return state[1]
        if state[0] == "other":
            g2, p2 = state[1].split(".")
            base = self.value(g2, p2, date, depth + 1)
            if base is ABSENT:
                raise KeyError(p2)
            return self._apply(base, state[2])
        return copy.deepcopy(state[1])

    # ------------------------------------------------------------------ a group
    def group(self, g, date):
        raw = self.raw(g)
        out = {}
        for p in raw:
            if p == "rounding":
                continue
            v = self.value(g, p, date)
            if v is not ABSENT:
                out[p] = v
                acc = raw[p].get("access_different_date")
                if acc == "vorjahr":
                    try:
                        dd = date.replace(year=date.year - 1)
                    except ValueError:
                        dd = date.replace(year=date.year - 1, day=date.day - 1)
                    w = self.value(g, p, dd)
                    if w is not ABSENT:
                        out[f"{p}_vorjahr"] = w
                elif acc == "jahresanfang":
                    w = self.value(g, p, date.replace(month=1, day=1))
                    if w is not ABSENT:
                        out[f"{p}_jahresanfang"] = w
        out["datum"] = np.datetime64(date)
        if "rounding" in raw:
            out["rounding"] = self.rounding(g, date)
        return out

    def rounding(self, g, date):
        out = {}
        for fname, spec in self.raw(g).get("rounding", {}).items():
            ds = sorted(k for k in spec if _is_date(k) and k <= date)
            if ds:
                e = spec[ds[-1]]
                out[fname] = {k: e[k] for k in e if k in ("direction", "base", "to_add_after_rounding")}
        return out

    def dated_keys(self, g):
        out = set()

        def walk(o):
            if isinstance(o, dict):
                for k, v in o.items():
                    if _is_date(k):
                        out.add(k)
                    walk(v)

        walk(self.raw(g))
        return out

    def vorjahr_params(self, g):
        return [p for p, v in self.raw(g).items()
                if isinstance(v, dict) and v.get("access_different_date") == "vorjahr"]


# ---------------------------------------------------------------------- piecewise
def _F(x):
    if isinstance(x, str):
        x = float(x)
    if isinstance(x, bool):
        raise TypeError("bool in schedule")
    if isinstance(x, float) and math.isinf(x):
        return x
    return Fraction(x)


class Schedule:
    """Exact piecewise polynomial built from the *raw* (folded) parameter dict."""

    def __init__(self, raw, name=""):
        self.name = name
        typ = raw["type"]
        assert typ.startswith("piecewise"), typ
        kind = typ.split("_")[1]
        self.degree = {"linear": 1, "quadratic": 2, "cubic": 3}[kind]
        keys = sorted(k for k in raw if isinstance(k, int) and not isinstance(k, bool))
        if keys != list(range(len(keys))):
            raise ValueError(f"{name}: piece keys {keys}")
        pcs = [raw[k] for k in keys]
        n = len(pcs)
        lower, upper = [None] * n, [None] * n
        for i, p in enumerate(pcs):
            if "lower_threshold" in p:
                lower[i] = p["lower_threshold"]
            elif i > 0 and "upper_threshold" in pcs[i - 1]:
                lower[i] = pcs[i - 1]["upper_threshold"]
            if "upper_threshold" in p:
                upper[i] = p["upper_threshold"]
            elif i < n - 1 and "lower_threshold" in pcs[i + 1]:
                upper[i] = pcs[i + 1]["lower_threshold"]
        if any(v is None for v in lower + upper):
            raise ValueError(f"{name}: missing thresholds")
        self.lower = [_F(x) for x in lower]
        self.upper = [_F(x) for x in upper]
        names = ["rate_linear", "rate_quadratic", "rate_cubic"][: self.degree]
        rates = []
        for j, rn in enumerate(names):
            row = []
            for i, p in enumerate(pcs):
                if rn in p:
                    row.append(_F(p[rn]))
                elif rn == "rate_linear" and "rate" in p and self.degree == 1:
                    row.append(_F(p["rate"]))
                elif rn == "rate_quadratic" and raw.get("progressionsfaktor"):
                    row.append(None)  # filled below
                else:
                    raise ValueError(f"{name}: piece {i} lacks {rn}")
            rates.append(row)
        if self.degree >= 2 and raw.get("progressionsfaktor"):
            for i in range(n):
                if rates[1][i] is None:
                    # float arithmetic mirrors the statutory definition; computed exactly here
                    rates[1][i] = (rates[0][i + 1] - rates[0][i]) / (2 * (self.upper[i] - self.lower[i]))
        self.rates = rates
        given = [("intercept_at_lower_threshold" in p) for p in pcs]
        if not given[0]:
            raise ValueError(f"{name}: first intercept missing")
        if all(given):
            self.intercepts = [_F(p["intercept_at_lower_threshold"]) for p in pcs]
            self.generated = False
        elif sum(given) == 1:
            self.generated = True
            ic = [_F(pcs[0]["intercept_at_lower_threshold"])]
            for i in range(n - 1):
                ic.append(self._piece_value(i, self.upper[i], ic))
            self.intercepts = ic
        else:
            raise ValueError(f"{name}: some but not all intercepts given")
        self.thresholds = [self.lower[0], *self.upper]

    def _piece_value(self, i, x, ic=None):
        ic = self.intercepts if ic is None else ic
        if isinstance(self.lower[i], float) and math.isinf(self.lower[i]):
            return ic[i]
        dx = x - self.lower[i]
        return ic[i] + sum(self.rates[p][i] * dx ** (p + 1) for p in range(self.degree))

    def piece_of(self, x):
        """Right-continuous: thresholds belong to the piece starting there."""
        for i in range(len(self.lower) - 1, -1, -1):
            if x >= self.lower[i]:
                return i
        return 0

    def __call__(self, x):
        x = Fraction(x)
        return self._piece_value(self.piece_of(x), x)

    def well_formed(self):
        """List of structural defects (empty = fine)."""
        bad = []
        if not (isinstance(self.lower[0], float) and self.lower[0] == -math.inf):
            bad.append("first lower threshold is not -inf")
        if not (isinstance(self.upper[-1], float) and self.upper[-1] == math.inf):
            bad.append("last upper threshold is not +inf")
        for i in range(1, len(self.lower)):
            if self.lower[i] != self.upper[i - 1]:
                bad.append(f"piece {i}: lower threshold {self.lower[i]} != upper threshold of piece {i - 1}")
        th = self.thresholds
        for a, b in zip(th, th[1:]):
            if not a < b:
                bad.append(f"thresholds not strictly increasing: {a} !< {b}")
        return bad


# ----------------------------------------------------------------------- rounding
def round_ref(x, base, direction):
    """Exact rounding of a float x to the grid base*k (decided in exact arithmetic on the
    float's value; returns Fraction)."""
    q = Fraction(x) / Fraction(base)
    if direction == "up":
        k = math.ceil(q)
    elif direction == "down":
        k = math.floor(q)
    else:
        k = round(q)  # banker's, like numpy
    return k * Fraction(base)


# -------------------------------------------------------------------------- units
class _UF:
    def __init__(self, keys):
        self.p = {k: k for k in keys}

    def find(self, x):
        while self.p[x] != x:
            self.p[x] = self.p[self.p[x]]
            x = self.p[x]
        return x

    def union(self, a, b):
        self.p[self.find(a)] = self.find(b)

    def labels(self, keys):
        return [self.find(k) for k in keys]


def units_ref(p_id, hh_id, alter, ehepartner, einstandspartner, e1, e2, gemeinsam_veranlagt, eigenbedarf):
    """Order-free, set-based construction of the derived units straight from their
    definitions.  All arguments are python lists in the same (arbitrary) row order.
    Returns dict level -> list of labels (one per row) and `invalid` (reason or None) when the
    definitions give no unique partition for this structure."""
    n = len(p_id)
    pos = {p: i for i, p in enumerate(p_id)}
    invalid = None
    has_children = {p: False for p in p_id}
    for i in range(n):
        for q in (e1[i], e2[i]):
            if q >= 0:
                has_children[q] = True
    out = {}
    # marriage unit, Einstandsgemeinschaft
    for name, ptr in (("ehe", ehepartner), ("eg", einstandspartner)):
        uf = _UF(p_id)
        for i in range(n):
            if ptr[i] >= 0:
                if ptr[pos[ptr[i]]] != p_id[i]:
                    invalid = f"{name}: partner pointers not symmetric"
                uf.union(p_id[i], ptr[i])
        out[name] = uf.labels(p_id)
    # tax unit: spouses iff both are flagged jointly assessed
    uf = _UF(p_id)
    for i in range(n):
        j = ehepartner[i]
        if j >= 0 and gemeinsam_veranlagt[i] and gemeinsam_veranlagt[pos[j]]:
            uf.union(p_id[i], j)
    out["sn"] = uf.labels(p_id)
    # Familiengemeinschaft
    uf = _UF(p_id)
    for i in range(n):
        if einstandspartner[i] >= 0:
            uf.union(p_id[i], einstandspartner[i])
    couple_of = {p: uf.find(p) for p in p_id}
    fg_child = [False] * n
    for i in range(n):
        if alter[i] < 25 and not has_children[p_id[i]]:
            elig = {couple_of[q] for q in (e1[i], e2[i]) if q >= 0 and hh_id[pos[q]] == hh_id[i]}
            if len(elig) > 1:
                invalid = "child eligible for two different couples in one household"
            if elig:
                fg_child[i] = True
                if einstandspartner[i] >= 0:
                    invalid = "a partner is also an FG-eligible child of a co-resident parent"
    uf2 = _UF(p_id)
    for i in range(n):
        if einstandspartner[i] >= 0:
            uf2.union(p_id[i], einstandspartner[i])
    for i in range(n):
        if fg_child[i]:
            for q in (e1[i], e2[i]):
                if q >= 0 and hh_id[pos[q]] == hh_id[i]:
                    uf2.union(p_id[i], q)
    out["fg"] = uf2.labels(p_id)
    # Bedarfsgemeinschaft: FG minus each child covering its own needs
    bg = []
    for i in range(n):
        if fg_child[i] and eigenbedarf[i] and alter[i] < 25:
            bg.append(("own", p_id[i]))
        else:
            bg.append(("fg", out["fg"][i]))
        if eigenbedarf[i] and alter[i] < 25 and not fg_child[i]:
            # the flag is only meaningful for children of a unit
            if any(out["fg"][k] == out["fg"][i] for k in range(n) if k != i):
                invalid = "eigenbedarf_gedeckt set for a person under 25 who is not a child of the unit"
    out["bg"] = bg
    out["fg_child"] = fg_child
    return out, invalid

"""Node-local reference evaluator ("shadow"): recompute a node from the parent columns of the
same trace with a deliberately naive method - the unwrapped scalar rule called row by row
with python scalars, python loops over group members, exact factors."""
from __future__ import annotations

import datetime
import inspect
import math

import numpy as np

NP_OF = {bool: np.dtype(bool), int: np.dtype("int64"), float: np.dtype("float64")}


def is_scalar_rule(f):
    info = getattr(f, "__info__", None) or {}
    return inspect.isfunction(f) and not info.get("skip_vectorization", False)


def rule_args(f):
    return list(inspect.signature(f).parameters)


def scalar_column(f, params, columns, n):
    """Call the scalar rule row by row. columns: dict arg -> python list. Returns
    (results list, error list) where errors[i] is None or the exception repr."""
    args = rule_args(f)
    fixed = {a: params[a[:-7]] for a in args if a.endswith("_params") and a[:-7] in params}
    cols = [(a, columns[a]) for a in args if a not in fixed]
    out, errs = [], []
    for i in range(n):
        kw = {a: c[i] for a, c in cols}
        try:
            out.append(f(**kw, **fixed))
            errs.append(None)
        except Exception as e:  # noqa: BLE001
            out.append(None)
            errs.append(f"{type(e).__name__}: {str(e)[:120]}")
    return out, errs


def values_equal(prod, ref_list):
    """Exact comparison of a production column with python results. Returns index of the
    first differing row or -1."""
    for i, (p, r) in enumerate(zip(prod.tolist(), ref_list)):
        if r is None:
            continue
        if isinstance(r, (np.datetime64, datetime.date)) or isinstance(p, (np.datetime64, datetime.date)):
            if np.datetime64(p, "s") != np.datetime64(r, "s"):
                return i
            continue
        if isinstance(r, (np.generic,)):
            r = r.item()
        if isinstance(p, float) and isinstance(r, float) and math.isnan(p) and math.isnan(r):
            continue
        if p != r:
            return i
    return -1


def declared_dtype(f):
    t = getattr(f, "__annotations__", {}).get("return")
    return NP_OF.get(t), t


# --------------------------------------------------------------------- aggregates
def group_reference(kind, source, ids):
    """Python-loop reference of a group aggregate; returns list per row."""
    members = {}
    for i, g in enumerate(ids):
        members.setdefault(g, []).append(i)
    per_group = {}
    for g, idx in members.items():
        vals = [source[i] for i in idx] if source is not None else None
        if kind == "count":
            per_group[g] = len(idx)
        elif kind == "sum":
            per_group[g] = math.fsum(vals) if any(isinstance(v, float) for v in vals) else sum(int(v) for v in vals)
        elif kind == "mean":
            per_group[g] = math.fsum(vals) / len(vals)
        elif kind == "max":
            per_group[g] = max(vals)
        elif kind == "min":
            per_group[g] = min(vals)
        elif kind == "any":
            per_group[g] = any(bool(v) for v in vals)
        elif kind == "all":
            per_group[g] = all(bool(v) for v in vals)
        else:
            raise ValueError(kind)
    return [per_group[g] for g in ids], members


def pid_sum_reference(source, pointer, p_id):
    pos = {p: i for i, p in enumerate(p_id)}
    acc = [[] for _ in p_id]
    for i, tgt in enumerate(pointer):
        if tgt >= 0:
            acc[pos[tgt]].append(source[i])
    isf = any(isinstance(v, float) for v in source)
    return [math.fsum(a) if isf else sum(int(v) for v in a) for a in acc]


def pylist(arr, in_dag=True):
    """Elements exactly as numpy.vectorize hands them to a scalar rule (python objects).
    Datetime columns computed inside the DAG are day-resolution arrays there (pandas stores
    them as seconds in the returned frame), so they are converted back for in-DAG parents."""
    a = np.asarray(arr)
    if a.dtype.kind == "M" and in_dag:
        a = a.astype("datetime64[D]")
    return a.astype(object).tolist()

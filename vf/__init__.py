"""Runtime-monitoring machinery for GETTSIM's properties C01-C20 (see DESIGN.md)."""

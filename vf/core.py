"""Check driver: planning, parallel execution in fresh interpreters, three-valued verdicts,
known findings, evidence and replay files.

A check module (vf/checks/cXX.py) provides

    PROPERTY = "C01"; LEVEL = "exploration"
    plan(tier, seed)            -> list of JSON-serialisable work items (deterministic)
    run_item(item)              -> JSON-serialisable result dict   (runs in a worker that
                                   imported the repository from VERIF_REPO, default /repo)
    summarize(results, tier, seed) -> dict(coverage=..., violations=[...],
                                   inconclusive=[...], assumptions=[...])

A violation is a dict(key=<mechanism / call site>, what=<one line>, witness=<json>, item=<item>).
"""
from __future__ import annotations

import importlib
import json
import multiprocessing as mp
import os
import subprocess
import sys
import time
import traceback
import zlib
from concurrent.futures import ProcessPoolExecutor, as_completed
from concurrent.futures.process import BrokenProcessPool
from pathlib import Path

ROOT = Path(__file__).resolve().parent.parent
REPO = Path(os.environ.get("VERIF_REPO", "/repo")).resolve()
PY = "/venv/bin/python"
DEPS = ROOT / ".deps"
NPROC = int(os.environ.get("VERIF_JOBS", "16"))


def ensure_deps():
    if not (DEPS / "icontract").exists():
        subprocess.run(
            [PY, "-m", "pip", "install", "-q", "--no-index", "--find-links",
             "/opt/veriftools/wheels", "--target", str(DEPS), "icontract"],
            check=True, stdout=subprocess.DEVNULL, stderr=subprocess.DEVNULL,
        )


def bootstrap_paths():
    src = str(REPO / "src")
    if src not in sys.path:
        sys.path.insert(0, src)
    if str(DEPS) not in sys.path:
        sys.path.append(str(DEPS))
    if str(ROOT) not in sys.path:
        sys.path.insert(0, str(ROOT))


def crc(s: str) -> int:
    return zlib.crc32(s.encode())


def rng_for(seed: int, prop: str, *case):
    import numpy

    return numpy.random.default_rng([int(seed), crc(prop), *[int(c) for c in case]])


# --------------------------------------------------------------------------- workers
_MOD = None


def _init_worker(prop: str):
    global _MOD
    os.environ.setdefault("PYTHONHASHSEED", "0")
    bootstrap_paths()
    import warnings

    warnings.filterwarnings("ignore")
    _MOD = importlib.import_module(f"vf.checks.{prop.lower()}")
    if hasattr(_MOD, "worker_init"):
        _MOD.worker_init()


def _run_one(idx: int, item):
    t = time.time()
    try:
        res = _MOD.run_item(item)
    except Exception:  # noqa: BLE001 - a harness error, reported as inconclusive
        res = {"_harness_error": traceback.format_exc()[-3000:]}
    res["_wall"] = time.time() - t
    res["_idx"] = idx
    res["_item"] = item
    return res


def run_items(prop: str, items: list, watchdog_s: float) -> tuple[list, list]:
    """Run items in fresh interpreters ("spawn"), return (results, inconclusive_reasons)."""
    inconclusive = []
    results = []
    if not items:
        return results, ["no work items planned"]
    env_src = str(REPO / "src")
    os.environ["PYTHONPATH"] = env_src + os.pathsep + str(ROOT)
    os.environ["PYTHONHASHSEED"] = "0"
    os.environ["VERIF_REPO"] = str(REPO)
    ctx = mp.get_context("spawn")
    n = max(1, min(NPROC, len(items)))
    deadline = time.time() + watchdog_s
    try:
        with ProcessPoolExecutor(
            max_workers=n, mp_context=ctx, initializer=_init_worker, initargs=(prop,)
        ) as ex:
            futs = {ex.submit(_run_one, i, it): i for i, it in enumerate(items)}
            try:
                for f in as_completed(futs, timeout=max(1.0, deadline - time.time())):
                    results.append(f.result())
            except TimeoutError:
                inconclusive.append(
                    f"watchdog fired after {watchdog_s:.0f}s with "
                    f"{len(items) - len(results)} items unfinished"
                )
                for f in futs:
                    f.cancel()
                for p in list(getattr(ex, "_processes", {}).values()):
                    p.kill()
    except BrokenProcessPool:
        # a worker was killed (segmentation fault in native code, abort, out-of-memory killer ...).  The pool cannot say
        # which item did it: every unfinished item is re-run alone in its own interpreter, twice if it dies there.
        done = {r["_idx"] for r in results}
        rest = [(i, it) for i, it in enumerate(items) if i not in done]
        from concurrent.futures import ThreadPoolExecutor

        with ThreadPoolExecutor(max_workers=n) as tp:
            for r in tp.map(lambda x: _run_isolated(prop, x[0], x[1], max(60.0, deadline - time.time())), rest):
                results.append(r)
    results.sort(key=lambda r: r["_idx"])
    for r in results:
        if "_harness_error" in r and "_crash" not in r:
            inconclusive.append("harness error in item %d: %s" % (r["_idx"], r["_harness_error"][-600:]))
    return results, inconclusive


_SUT_SIGNALS = {4: "SIGILL", 6: "SIGABRT", 7: "SIGBUS", 8: "SIGFPE", 11: "SIGSEGV"}


def _run_isolated(prop, idx, item, timeout):
    """One item in its own interpreter; a death by SIGSEGV / SIGABRT / SIGBUS / SIGFPE / SIGILL that repeats is attributed
    to the item (`_crash`), anything else (SIGKILL, timeout, non-reproducible) stays a harness error = inconclusive."""
    import pickle
    import subprocess
    import tempfile

    deaths = []
    for _attempt in range(2):
        with tempfile.TemporaryDirectory() as td:
            ip, op = os.path.join(td, "i.pkl"), os.path.join(td, "o.pkl")
            with open(ip, "wb") as fh:
                pickle.dump((prop, idx, item), fh)
            try:
                p = subprocess.run([PY, "-X", "faulthandler", "-c", "from vf.core import _isolated_main; _isolated_main()", ip, op],
                                   cwd=str(ROOT), env=dict(os.environ), capture_output=True, text=True, timeout=timeout)
            except subprocess.TimeoutExpired:
                return {"_harness_error": f"isolated re-run of item {idx} timed out", "_idx": idx, "_item": item, "_wall": timeout}
            if p.returncode == 0 and os.path.exists(op):
                with open(op, "rb") as fh:
                    return pickle.load(fh)
            deaths.append((p.returncode, p.stderr[-1500:]))
            if -p.returncode not in _SUT_SIGNALS:
                break
    rc, err = deaths[-1]
    res = {"_harness_error": f"isolated re-run of item {idx} ended with exit code {rc}: {err[-600:]}", "_idx": idx, "_item": item, "_wall": 0.0}
    if len(deaths) == 2 and all(-d[0] in _SUT_SIGNALS for d in deaths):
        frames = [l.strip() for l in err.splitlines() if l.strip().startswith("File ") and "/src/_gettsim" in l]
        res["_crash"] = dict(signal=_SUT_SIGNALS[-rc], where=frames[:3], stderr=err[-1200:])
    return res


def _isolated_main():
    import pickle

    prop, idx, item = pickle.load(open(sys.argv[1], "rb"))
    _init_worker(prop)
    res = _run_one(idx, item)
    with open(sys.argv[2], "wb") as fh:
        pickle.dump(res, fh)


# ------------------------------------------------------------------ known findings
def load_known(prop: str):
    p = ROOT / "known_findings.json"
    if not p.exists():
        return {}
    data = json.loads(p.read_text())
    return {
        f["key"]: f
        for f in data.get("findings", [])
        if f["property"] == prop and f.get("status") == "known"
    }


def _jsonable(o):
    import numpy

    if isinstance(o, dict):
        return {str(k): _jsonable(v) for k, v in o.items()}
    if isinstance(o, (list, tuple, set)):
        return [_jsonable(v) for v in o]
    if isinstance(o, numpy.generic):
        return _jsonable(o.item())
    if isinstance(o, numpy.ndarray):
        return _jsonable(o.tolist())
    if isinstance(o, float):
        if o != o:
            return "nan"
        if o in (float("inf"), float("-inf")):
            return "inf" if o > 0 else "-inf"
        return o
    if isinstance(o, (str, int, bool)) or o is None:
        return o
    return repr(o)


def jsonable(o):
    return _jsonable(o)


# ------------------------------------------------------------------------ main
def main(argv=None):
    import argparse

    ap = argparse.ArgumentParser()
    ap.add_argument("prop")
    ap.add_argument("--tier", default=os.environ.get("VERIF_TIER", "quick"))
    ap.add_argument("--replay", default=None)
    ap.add_argument("--no-evidence", action="store_true")
    a = ap.parse_args(argv)
    prop = a.prop.upper()
    tier = a.tier if a.tier in ("quick", "thorough") else "quick"
    seed = int(os.environ.get("VERIF_SEED", "0") or 0)
    ensure_deps()
    bootstrap_paths()
    os.environ["PYTHONHASHSEED"] = "0"
    os.environ["VERIF_REPO"] = str(REPO)
    t0 = time.time()
    mod = importlib.import_module(f"vf.checks.{prop.lower()}")

    if a.replay:
        w = json.loads(Path(a.replay).read_text())
        items = [w["item"]]
        tier = w.get("tier", tier)
        seed = w.get("seed", seed)
    else:
        items = mod.plan(tier, seed)
    watchdog = getattr(mod, "WATCHDOG_S", {"quick": 1500, "thorough": 7200})[tier]
    results, inconclusive = run_items(prop, items, watchdog)
    summary = mod.summarize(results, tier, seed)
    inconclusive += summary.get("inconclusive", [])
    violations = summary.get("violations", [])
    for r in results:
        if "_crash" in r:  # the interpreter died (twice) inside the system under test while running this item
            c = r["_crash"]
            where = c["where"][0] if c["where"] else "native code"
            violations.append(dict(key=f"crash:{c['signal']}:{where.split(', in ')[-1] if ', in ' in where else where}",
                                   what=f"the interpreter is killed by {c['signal']} while the system under test runs a valid work item "
                                        f"({where}); reproduced in two fresh interpreters", witness=c, item=r["_item"]))

    known = load_known(prop)
    seen_known, new = {}, []
    for v in violations:
        if v["key"] in known:
            seen_known.setdefault(v["key"], v)
        else:
            new.append(v)
    for k, v in seen_known.items():
        print(f"KNOWN-FINDING: property={prop} {k}: {known[k].get('what', v['what'])}")
    not_witnessed = sorted(set(known) - set(seen_known))
    for k in not_witnessed:
        print(f"note: listed known finding not witnessed in this run: property={prop} {k}")
    # one replay file / VIOLATION line per distinct key
    rep_dir = ROOT / "replays"
    emitted = {}
    for v in new:
        if v["key"] in emitted:
            emitted[v["key"]]["more"] += 1
            continue
        rep_dir.mkdir(exist_ok=True)
        name = f"{prop}_{crc(v['key']):08x}.json"
        path = rep_dir / name
        doc = dict(property=prop, key=v["key"], what=v["what"], tier=tier, seed=seed,
                   witness=jsonable(v.get("witness")), item=jsonable(v.get("item")), more=0)
        emitted[v["key"]] = doc
        doc["_path"] = str(path)
    for doc in emitted.values():
        path = doc.pop("_path")
        Path(path).write_text(json.dumps(doc, indent=1, ensure_ascii=False))
        print(f"VIOLATION property={prop} replay={path}")
        print(f"  what: {doc['what']} (+{doc['more']} more with this key)")

    wall = time.time() - t0
    if not a.no_evidence and not a.replay:
        cov = summary.get("coverage", {})
        cov.setdefault("evaluations", len(results))
        ev = dict(
            property_id=prop, tier=tier, seed=seed, level=mod.LEVEL,
            coverage=jsonable(cov),
            assumptions=summary.get("assumptions", []),
            wall_s=round(wall, 2),
            violations=len(emitted),
            known_findings_seen=sorted(seen_known),
            known_findings_not_witnessed=not_witnessed,
            inconclusive=inconclusive,
            repo=str(REPO),
        )
        (ROOT / "evidence").mkdir(exist_ok=True)
        (ROOT / "evidence" / f"{prop}.json").write_text(
            json.dumps(ev, indent=1, ensure_ascii=False)
        )
    status = "VIOLATED" if emitted else ("INCONCLUSIVE" if inconclusive else "HELD")
    for r in inconclusive:
        print(f"INCONCLUSIVE property={prop} reason={r}")
    cov = summary.get("coverage", {})
    print(
        f"{prop} tier={tier} seed={seed} {status}: items={len(items)} "
        f"evaluations={cov.get('evaluations')} distinct_nontrivial={cov.get('distinct_nontrivial')} "
        f"known={len(seen_known)} wall={wall:.1f}s"
    )
    if emitted:
        return 1
    if inconclusive:
        return 2
    return 0

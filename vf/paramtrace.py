"""Recording dict for parameter groups: logs (reader function, path) of every read."""
from __future__ import annotations

import copy
import sys


class RecDict(dict):
    def __init__(self, d, path, log):
        super().__init__(d)
        self._path = path
        self._log = log

    def _note(self, k):
        try:
            who = sys._getframe(2).f_code.co_name
        except ValueError:
            who = "?"
        self._log.add((who, (*self._path, k)))

    def _wrap(self, k, v):
        if type(v) is dict:
            v = RecDict(v, (*self._path, k), self._log)
            dict.__setitem__(self, k, v)
        return v

    def __getitem__(self, k):
        self._note(k)
        return self._wrap(k, dict.__getitem__(self, k))

    def get(self, k, default=None):
        self._note(k)
        if dict.__contains__(self, k):
            return self._wrap(k, dict.__getitem__(self, k))
        return default

    def __contains__(self, k):
        self._note(k)
        return dict.__contains__(self, k)

    def __iter__(self):
        self._note("*")
        return dict.__iter__(self)

    def keys(self):
        self._note("*")
        return dict.keys(self)

    def values(self):
        self._note("*")
        return [self._wrap(k, dict.__getitem__(self, k)) for k in dict.keys(self)]

    def items(self):
        self._note("*")
        return [(k, self._wrap(k, dict.__getitem__(self, k))) for k in dict.keys(self)]

    def __deepcopy__(self, memo):
        return {k: copy.deepcopy(v, memo) for k, v in dict.items(self)}

    def __reduce__(self):
        return (dict, (dict(self),))


def wrap_params(params):
    log = set()
    return {g: RecDict(v, (g,), log) if isinstance(v, dict) else v for g, v in params.items()}, log


def delete_path(params, path):
    """Deep copy of params without the leaf at `path`; None if the path does not exist."""
    p = copy.deepcopy(params)
    o = p
    for k in path[:-1]:
        if not isinstance(o, dict) or k not in o:
            return None
        o = o[k]
    if not isinstance(o, dict) or path[-1] not in o:
        return None
    del o[path[-1]]
    return p

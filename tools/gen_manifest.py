#!/usr/bin/env python3
"""Regenerates MANIFEST.json from the table below (kept in one place so that the manifest
is always valid and in sync with the checks that exist)."""
import json, os, sys
ROOT = os.path.dirname(os.path.dirname(os.path.abspath(__file__)))
sys.path.insert(0, ROOT)
from tools.manifest_table import CHECKS, NOT_APPLICABLE, NOTES  # noqa: E402

checks = []
for pid, c in sorted(CHECKS.items()):
    if not os.path.exists(os.path.join(ROOT, "vf", "checks", pid.lower() + ".py")):
        continue
    checks.append(dict(
        property_id=pid,
        quick_cmd=f"./check {pid} --tier quick",
        thorough_cmd=f"./check {pid} --tier thorough",
        evidence_file=f"evidence/{pid}.json",
        replay_cmd_template=f"./check {pid} --replay {{path}}",
        engine="vf",
        level_claimed=dict(category=c["level"], text=c["text"], design_ref=c["ref"]),
        level_note=c["note"],
        technique=c["technique"],
    ))
claimed = {c["property_id"] for c in checks}
props = [json.loads(l)["id"] for l in open(os.path.join(ROOT, "properties.jsonl"))]
na = [dict(property_id=p, reason=NOT_APPLICABLE.get(p, "check not built yet in this round (planned, see DESIGN.md section 3)"))
      for p in props if p not in claimed]
m = dict(
    version=1,
    setup_cmd="/venv/bin/pip install -q --no-index --find-links /opt/veriftools/wheels --target /verif/.deps icontract",
    hooks=dict(
        guard="GETTSIM_VERIF",
        enable="no source hooks: every observation point is reached through public arguments or by re-binding module attributes from the harness (vf/); checks import /repo/src fresh in sub-processes",
        baseline_off_cmd="cd /repo && /venv/bin/python -m pytest -q -p no:cacheprovider --timeout=900 --continue-on-collection-errors",
        source_commits=[],
        add_only=True,
    ),
    engines=[dict(name="vf", path="vf/", serves_properties=sorted(claimed),
                  kind_free_text="runtime monitoring: reference-model, metamorphic/differential trace and invariant monitors over executions of the real code in fresh interpreters")],
    checks=checks,
    notes=NOTES,
    not_applicable=na,
)
json.dump(m, open(os.path.join(ROOT, "MANIFEST.json"), "w"), indent=1, ensure_ascii=False)
print("claimed:", sorted(claimed), "not claimed:", [x["property_id"] for x in na])

#!/bin/bash
# usage: tools/run_all.sh [quick|thorough] [ids...]   runs the registered commands and validates evidence
tier=${1:-quick}; shift
ids=${@:-C01 C02 C03 C04 C05 C06 C07 C08 C09 C10 C11 C12 C13 C14 C15 C16 C17 C18 C19 C20}
cd "$(dirname "$0")/.."
rc_all=0
for id in $ids; do
  s=$(date +%s)
  out=$(./check $id --tier $tier 2>&1); rc=$?
  e=$(date +%s)
  echo "$out" | grep -E "^VIOLATION|^INCONCLUSIVE|^  what" | cut -c1-300
  echo "$out" | tail -1 | sed "s/^/[rc=$rc $((e-s))s] /"
  python3-vt - "$id" <<'PY' || rc_all=1
import json, jsonschema, sys
i=sys.argv[1]
jsonschema.validate(json.load(open(f'evidence/{i}.json')), json.load(open('/root/.vp/EVIDENCE.schema.json')))
PY
  [ $rc -ne 0 ] && rc_all=1
done
exit $rc_all

#!/usr/bin/env python3
"""Self-validation: apply each mutant of mutants/catalogue.py to a scratch copy of /repo (under $TMPDIR,
removed afterwards), run the quick tier of the checks that must detect it with VERIF_REPO pointing to the
copy, and record which fired.  Optionally (--tests) also run the pinned test-suite on the mutant.
Usage: run_mutants.py [--tests | --suite-only] [--only name,name] [--out file]"""
import json, os, shutil, subprocess, sys, tempfile, time
ROOT = os.path.dirname(os.path.dirname(os.path.abspath(__file__)))
sys.path.insert(0, ROOT)
from mutants.catalogue import M  # noqa: E402

only = None
if "--only" in sys.argv:
    only = set(sys.argv[sys.argv.index("--only") + 1].split(","))
with_tests = "--tests" in sys.argv or "--suite-only" in sys.argv
suite_only = "--suite-only" in sys.argv  # only (re)compute the pinned-suite status of mutants that do not have one yet
out_file = sys.argv[sys.argv.index("--out") + 1] if "--out" in sys.argv else os.path.join(ROOT, "mutants", "results.json")
results = json.load(open(out_file)) if os.path.exists(out_file) else {}
for mu in M:
    if only and mu["name"] not in only:
        continue
    if suite_only and "suite_green" in results.get(mu["name"], {}):
        continue
    tmp = tempfile.mkdtemp(prefix="vfmut_")
    dst = os.path.join(tmp, "repo")
    try:
        subprocess.run(["rsync", "-a", "--exclude", ".git", "--exclude", "__pycache__", "/repo/", dst + "/"], check=True)
        path = os.path.join(dst, mu["file"])
        src = open(path, encoding="utf-8").read()
        if src.count(mu["old"]) < 1:
            print(f"{mu['name']}: PATTERN NOT FOUND"); results[mu["name"]] = dict(error="pattern not found"); continue
        open(path, "w", encoding="utf-8").write(src.replace(mu["old"], mu["new"], 1))
        r = dict(note=mu["note"], expects=mu["expects"], fired={}, keys={})
        if suite_only and mu["name"] in results:
            r = results[mu["name"]]
        for chk in ([] if suite_only else mu["expects"]):
            t = time.time()
            p = subprocess.run([os.path.join(ROOT, "check"), chk, "--tier", "quick", "--no-evidence"],
                               env=dict(os.environ, VERIF_REPO=dst), capture_output=True, text=True, cwd=ROOT)
            r["fired"][chk] = p.returncode == 1
            r["keys"][chk] = [l.strip()[:160] for l in p.stdout.splitlines() if l.startswith("  what:")][:2]
            if p.returncode not in (0, 1):
                r["keys"][chk].append("exit %d: %s" % (p.returncode, p.stdout.strip().splitlines()[-1][:200] if p.stdout.strip() else p.stderr[-200:]))
            print(f"{mu['name']:38s} {chk} -> {'DETECTED' if p.returncode == 1 else 'exit %d' % p.returncode} ({time.time() - t:.0f}s)", flush=True)
        if with_tests:
            p = subprocess.run(["python3", os.path.join(ROOT, "tools", "run_suite.py"), dst], capture_output=True, text=True)
            r["suite_green"] = p.returncode == 0
            r["suite_tail"] = p.stdout.strip().splitlines()[-1] if p.stdout.strip() else ""
            print(f"{mu['name']:38s} pinned suite -> {'green' if p.returncode == 0 else 'RED'} {r['suite_tail']}", flush=True)
        elif mu["name"] in results and "suite_green" in results[mu["name"]]:
            r["suite_green"] = results[mu["name"]]["suite_green"]; r["suite_tail"] = results[mu["name"]].get("suite_tail")
        results[mu["name"]] = r
    finally:
        shutil.rmtree(tmp, ignore_errors=True)
    json.dump(results, open(out_file, "w"), indent=1, ensure_ascii=False)
det = sum(1 for r in results.values() if r.get("fired") and any(r["fired"].values()))
print(f"mutants with at least one expected check firing: {det}/{len(results)}")

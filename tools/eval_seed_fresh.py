#!/usr/bin/env python3
"""Re-evaluate a kept seeded change against the CURRENT /repo: scratch copy of /repo (outside /repo and /verif),
`patch -p1 < seeded/<name>/patch.diff`, demo with / without, quick tier of the listed checks; scratch copy removed.
usage: eval_seed_fresh.py <seed-name> <check,check,...>"""
import json, os, shutil, subprocess, sys, tempfile
name, checks = sys.argv[1], sys.argv[2].split(",")
ROOT = "/verif"
sd = f"{ROOT}/seeded/{name}"
tmp = tempfile.mkdtemp(prefix="vfseed_")
try:
    clean, wt = f"{tmp}/clean", f"{tmp}/changed"
    for d in (clean, wt):
        subprocess.run(["rsync", "-a", "--exclude", ".git", "--exclude", "__pycache__", "/repo/", d + "/"], check=True)
    p = subprocess.run(["patch", "-p1", "-s", "-d", wt, "-i", f"{sd}/patch.diff"], capture_output=True, text=True)
    assert p.returncode == 0, "patch does not apply to the current tree: " + p.stdout + p.stderr
    def demo(root):
        return subprocess.run(["/venv/bin/python", f"{sd}/demo.py"], cwd=root, env=dict(os.environ, PYTHONPATH=f"{root}/src"), capture_output=True, text=True).returncode
    v = dict(demo_exit_with_change=demo(wt), demo_exit_without_change=demo(clean), checks={}, evaluated_against="scratch copy of the current /repo")
    for c in checks:
        r = subprocess.run([f"{ROOT}/check", c, "--tier", "quick", "--no-evidence"], env=dict(os.environ, VERIF_REPO=wt), capture_output=True, text=True, cwd=ROOT)
        v["checks"][f"{c}:quick"] = dict(exit=r.returncode, what=[l.strip()[:220] for l in r.stdout.splitlines() if l.startswith("  what:")][:2])
    meta = json.load(open(f"{sd}/meta.json"))
    old = meta.get("verif", {})
    for k in ("pinned_suite_green_with_change", "pinned_suite_tail", "first_evaluation_before_strengthening"):
        if k in old:
            v[k] = old[k]
    meta["verif"] = v
    json.dump(meta, open(f"{sd}/meta.json", "w"), indent=1, ensure_ascii=False)
    print(name, "demo with/without:", v["demo_exit_with_change"], v["demo_exit_without_change"], {k: x["exit"] for k, x in v["checks"].items()})
finally:
    shutil.rmtree(tmp, ignore_errors=True)

#!/usr/bin/env python3
"""Run the repository's pinned test-suite (BASELINE.json) on a checkout and compare the
set of passing tests with BASELINE.stable_pass.  Usage: run_suite.py [repo_dir] [-n N]
Exit 0 iff every stable_pass test passed."""
import json, os, subprocess, sys, tempfile, xml.etree.ElementTree as ET

repo = sys.argv[1] if len(sys.argv) > 1 and not sys.argv[1].startswith("-") else "/repo"
n = "16"
if "-n" in sys.argv:
    n = sys.argv[sys.argv.index("-n") + 1]
base = json.load(open("/root/.vp/BASELINE.json"))
fd, xml = tempfile.mkstemp(suffix=".xml"); os.close(fd)
env = dict(os.environ)
env.pop("GETTSIM_VERIF", None)
env["PYTHONPATH"] = os.path.join(repo, "src")
cmd = ["/venv/bin/python", "-m", "pytest", "-q", "-p", "no:cacheprovider", "--timeout=900",
       "--continue-on-collection-errors", f"--junitxml={xml}", "-n", n]
r = subprocess.run(cmd, cwd=repo, env=env, capture_output=True, text=True)
print(r.stdout[-1500:])
passed = set()
for tc in ET.parse(xml).getroot().iter("testcase"):
    if not any(c.tag in ("failure", "error", "skipped") for c in tc):
        passed.add(f"{tc.get('classname')}::{tc.get('name')}")
os.unlink(xml)
want = set(base["stable_pass"])
missing = sorted(want - passed)
print(f"stable_pass={len(want)} passed_now={len(passed)} missing={len(missing)}")
for m in missing[:20]:
    print("  MISSING", m)
sys.exit(1 if missing else 0)

NOTES = ("All checks are runtime monitors over executions of the real code imported from /repo/src "
         "(or VERIF_REPO). Exit 0 = held on everything observed, 1 = violation (VIOLATION line + replay), "
         "2 = inconclusive (a deciding monitor observed too little). Known findings: known_findings.json.")
NOT_APPLICABLE = {}
CHECKS = {
 "C01": dict(level="exploration", ref="DESIGN.md section 3 / C01",
   technique="metamorphic trace monitor: all-nodes runs under row permutations / index labellings, node-local comparator aligned by p_id",
   text="Every node of the dependency graph is recomputed for generated valid populations under reversed, sorted, random and all rotated row orders with arbitrary index labels at change dates of the supported window; a node whose inputs agree but whose value (or id partition) differs is a violation localised at that node. Held = no such node on the runs observed.",
   note="Valid populations from vf.popgen; float group sums may differ by summation order (<=1e-12 relative, counted as noise, amplification reported); dates sampled from change dates in quick tier."),
 "C02": dict(level="exploration", ref="DESIGN.md section 3 / C02",
   technique="differential trace monitor: trace(A) vs trace(A++B)|A (B after/before/interleaved) and vs trace(relabel(A)); id-collision monitor",
   text="For generated pairs of valid populations with disjoint ids, all nodes of A are recomputed jointly with a hostile B (corner values, placed before/after/interleaved) and under sparse, order-reversing and shifted relabellings of p_id/hh_id; every node of A must be bit-identical (ids: same partition, pointer columns through the map) and no derived id may span two households.",
   note="Valid populations from vf.popgen; ids < 20000; fewer than 100 self-sufficient children per family unit; dates sampled in quick tier."),
 "C03": dict(level="exploration", ref="DESIGN.md section 3 / C03",
   technique="reference-model (shadow) monitor: unwrapped scalar rule called row by row vs production column, bit-exact, plus dtype-vs-annotation check",
   text="Every scalar rule of every validity period (392 rules, dates 1984-) is run as the only target through the public API on generated argument columns with the row order rotated so that rows of each python result type come first, and every scalar-rule node of all-nodes system runs is recomputed from the same trace; each row must equal the python result exactly and the dtype must be the declared one.",
   note="Helper functions taking non-column arguments and not-implemented stubs cannot be exercised (listed in evidence); rows on which the scalar rule itself raises are dropped."),
 "C04": dict(level="exploration", ref="DESIGN.md section 3 / C04",
   technique="differential monitor: singleton / random / parameter-only / auto-sum target sets and option settings vs the all-nodes run, bitwise",
   text="Each column is recomputed under singleton targets, random subsets, parameter-only target sets, automatic sums that exist only because requested, debug, extra unused columns and the three minimal-specification settings, and compared bitwise with the all-nodes run on the same data; shape, RangeIndex and exact column set are checked; an exception under one target set only is a violation.",
   note="Target sets are sampled (all nodes as singletons in the thorough tier); debug=True is documented to return more than the targets."),
 "C05": dict(level="exploration", ref="DESIGN.md section 3 / C05",
   technique="differential monitor: every node supplied as data column with its own computed values vs the all-nodes run, bitwise; warning monitor",
   text="Every node of the dependency graph (all in the thorough tier, at every change date >= 2015) is supplied as a data column holding its own computed values - also in a lossless other dtype and in pairs - with all other nodes requested; every other node must be bit-identical, the overlap warning must name the node and conversions must be announced.",
   note="The overlap warning is not demanded for derived time-unit nodes (they are not rules; they are simply not created when the name is a data column)."),
}

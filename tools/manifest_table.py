NOTES = ("All checks are runtime monitors over executions of the real code imported from /repo/src "
         "(or VERIF_REPO). Exit 0 = held on everything observed, 1 = violation (VIOLATION line + replay), "
         "2 = inconclusive (a deciding monitor observed too little). Known findings: known_findings.json.")
NOT_APPLICABLE = {}
CHECKS = {
 "C01": dict(level="exploration", ref="DESIGN.md section 3 / C01",
   technique="metamorphic trace monitor: all-nodes runs under row permutations / index labellings, node-local comparator aligned by p_id",
   text="Every node of the dependency graph is recomputed for generated valid populations under reversed, sorted, random and all rotated row orders with arbitrary index labels at change dates of the supported window; a node whose inputs agree but whose value (or id partition) differs is a violation localised at that node. Held = no such node on the runs observed.",
   note="Valid populations from vf.popgen; float group sums may differ by summation order (<=1e-12 relative, counted as noise, amplification reported); dates sampled from change dates in quick tier."),
}

#!/usr/bin/env python3
"""Confirm a seeded change delivered by an independent sub-agent and run checks against it.
usage: eval_seed.py <worktree> <seed-name> <check,check,...> [--suite]
 - copies SEED/{patch.diff,demo.py,meta.json} to /verif/seeded/<seed-name>/
 - demo must exit 1 with the change and 0 without it (git apply -R / git apply in the worktree)
 - optional: pinned suite green on the changed worktree
 - runs each check's quick tier with VERIF_REPO=<worktree>; records which fire in meta.json["verif"]"""
import json, os, shutil, subprocess, sys
wt, name, checks = sys.argv[1], sys.argv[2], sys.argv[3].split(",")
ROOT = "/verif"
dst = f"{ROOT}/seeded/{name}"
os.makedirs(dst, exist_ok=True)
for f in ("patch.diff", "demo.py", "meta.json"):
    shutil.copy(f"{wt}/SEED/{f}", f"{dst}/{f}")
env = dict(os.environ, PYTHONPATH=f"{wt}/src")
def demo():
    return subprocess.run(["/venv/bin/python", f"{wt}/SEED/demo.py"], cwd=wt, env=env, capture_output=True, text=True).returncode
def git(*a):
    return subprocess.run(["git", "-C", wt, *a], capture_output=True, text=True)
cur = git("diff", "--", "src").stdout
assert cur.strip() == open(f"{wt}/SEED/patch.diff").read().strip(), "worktree diff != patch.diff"
with_change = demo()
assert git("apply", "-R", f"{wt}/SEED/patch.diff").returncode == 0
without = demo()
assert git("apply", f"{wt}/SEED/patch.diff").returncode == 0
meta = json.load(open(f"{dst}/meta.json"))
v = dict(demo_exit_with_change=with_change, demo_exit_without_change=without, checks={})
if "--suite" in sys.argv:
    p = subprocess.run(["python3", f"{ROOT}/tools/run_suite.py", wt], capture_output=True, text=True)
    v["pinned_suite_green_with_change"] = p.returncode == 0
    v["pinned_suite_tail"] = p.stdout.strip().splitlines()[-1]
for c in checks:
    for tier in ("quick",):
        p = subprocess.run([f"{ROOT}/check", c, "--tier", tier, "--no-evidence"], env=dict(os.environ, VERIF_REPO=wt), capture_output=True, text=True, cwd=ROOT)
        v["checks"][f"{c}:{tier}"] = dict(exit=p.returncode, what=[l.strip()[:200] for l in p.stdout.splitlines() if l.startswith("  what:")][:2])
meta["verif"] = v
json.dump(meta, open(f"{dst}/meta.json", "w"), indent=1, ensure_ascii=False)
print(name, "demo with/without:", with_change, without, {k: x["exit"] for k, x in v["checks"].items()}, v.get("pinned_suite_tail", ""))

#!/usr/bin/env python3
"""Write the prompts for a round of independent seeded changes: one scratch worktree and one prompt per property.
The prompt contains only the property's title / statement / quantifier and one-line summaries of earlier seeds (so that
the new one uses a different mechanism) - nothing else from /verif.
usage: make_seed_prompts.py <round-dir e.g. /tmp/seed5> [C01 C02 ...]"""
import glob, json, os, subprocess, sys
root = sys.argv[1]
props = {json.loads(l)["id"]: json.loads(l) for l in open("/verif/properties.jsonl")}
ids = sys.argv[2:] or sorted(props)
T = open("/verif/tools/seed_prompt_template.txt").read()
for pid in ids:
    p = props[pid]
    wt = f"{root}/{pid}"
    if not os.path.isdir(wt):
        subprocess.run(["git", "-C", "/repo", "worktree", "add", "--detach", wt, "HEAD"], check=True, capture_output=True)
    earlier = []
    for mf in sorted(glob.glob(f"/verif/seeded/{pid}_*/meta.json")):
        m = json.load(open(mf))
        earlier.append(f'  ({len(earlier) + 1}) "{m.get("summary", "")[:420]}" (needed: {m.get("needs_to_manifest", "")[:300]})')
    anchors = ", ".join(p["anchors"]["files"][:4])
    txt = (T.replace("{WT}", wt).replace("{PID}", pid).replace("{TITLE}", p["title"]).replace("{STATEMENT}", p["statement"])
            .replace("{QUANT}", p["quantifier"]["text"]).replace("{N}", str(len(earlier))).replace("{EARLIER}", "\n".join(earlier))
            .replace("{ANCHORS}", anchors))
    open(f"{root}/{pid}.prompt.txt", "w").write(txt)
    print(pid, len(earlier), "earlier ideas")

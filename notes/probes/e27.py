from lib import *
from pop import gen_population
import sys, collections, re
rng=np.random.default_rng(2); date=sys.argv[1]
params, functions = set_up_policy_environment(date)
df=gen_population(rng, n_hh=8, year=int(date[:4]))
res,nodes,roots=sim_all(df,params,functions)
pat=re.compile(r"(.*_)([ymwd])((?:_hh|_wthh|_fg|_bg|_eg|_ehe|_sn)?)")
fac={"y":1.0,"m":12.0,"w":365.25/7,"d":365.25}
names=[n for n in list(res.columns)+list(df.columns) if pat.fullmatch(n)]
bad=collections.Counter(); ok=0
for n in names:
    m=pat.fullmatch(n); base,u,g=m.groups()
    variants={v:f"{base}{v}{g}" for v in "ymwd"}
    tg=[x for x in variants.values() if x not in df.columns]
    try: r=compute_taxes_and_transfers(df,params,functions,targets=tg)
    except Exception as e: bad[("EXC",n,type(e).__name__,str(e)[:80].replace("\n"," "))]+=1; continue
    col=lambda x: (r[x] if x in r else df[x]).values.astype(float)
    yv=col(variants[u])*fac[u]
    for v,x in variants.items():
        if not np.allclose(col(x)*fac[v], yv, rtol=1e-12, atol=1e-9): bad[("FACTOR",n,x)]+=1
    ok+=1
print(date,len(names),"names ok",ok); 
for k,v in bad.items(): print(k,v)
# supply inputs in another unit
base=compute_taxes_and_transfers(df,params,functions)
for c in [c for c in df.columns if pat.fullmatch(c) and df[c].dtype==float]:
    m=pat.fullmatch(c); b,u,g=m.groups()
    for v in "ymwd":
        if v==u: continue
        d2=df.drop(columns=[c]).copy(); d2[f"{b}{v}{g}"]=df[c]*fac[u]/fac[v]
        try: r=compute_taxes_and_transfers(d2,params,functions)
        except Exception as e: print("EXC supply",c,v,type(e).__name__,str(e)[:100].replace("\n"," ")); continue
        mx=max(float(np.abs(base[t]-r[t]).max()) for t in base.columns)
        if mx>1e-6: print("DIFF supply",c,"as",v,mx)

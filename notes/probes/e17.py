from lib import *
from pop import gen_population
import sys, collections
rng=np.random.default_rng(int(sys.argv[1]))
date=sys.argv[2]
params, functions = set_up_policy_environment(date)
bad=collections.Counter()
for it in range(25):
    df=gen_population(rng, n_hh=8, year=int(date[:4]), corner=True)
    n=len(df); adult=~df.kind.values
    # hostile mutations
    m=rng.integers(0,8)
    if m==0: df["bruttolohn_m"]=np.where(adult, rng.choice([0.,1e5,1e6],n),0.)
    if m==1: df["eink_vermietung_m"]=np.where(adult, rng.choice([-5000.,-1e5,0.],n),0.)
    if m==2: df["kapitaleink_brutto_m"]=np.where(adult, rng.choice([0.,1e6],n),0.)
    if m==3: df["bruttokaltmiete_m_hh"]=0.0; df["heizkosten_m_hh"]=0.0
    if m==4: df["alter"]=np.where(adult, rng.choice([18,64,65,66,67,99,100],n), rng.choice([0,1,17,18,24],n)); df["geburtsjahr"]=int(date[:4])-df.alter
    if m==5: df["vermögen_bedürft"]=np.where(adult,1e9,0.)
    if m==6: df["eink_selbst_m"]=np.where(adult, rng.choice([0.,-2000.,1e5],n),0.); df["selbstständig"]=df.eink_selbst_m!=0
    if m==7: df["sonstig_eink_m"]=np.where(adult, 1e5,0.); df["bruttolohn_vorj_m"]=1e5
    try:
        res,nodes,roots=sim_all(df,params,functions)
    except Exception as e:
        bad[("EXC",m,type(e).__name__,str(e)[:80])]+=1; continue
    for c in res.columns:
        v=res[c]
        if v.dtype.kind=='f' and not np.isfinite(v).all(): bad[("nonfinite",c,m)]+=1
        if c in DEFAULT_TARGETS and (v<0).any(): bad[("neg",c,m, float(v.min()))]+=1
print(date, dict(bad))

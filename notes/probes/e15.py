from lib import *
from pop import gen_population
import sys, collections, copy, networkx as nx, inspect, functools
rng=np.random.default_rng(11)
date="2023-07-01"
params, functions = set_up_policy_environment(date)
df=gen_population(rng, n_hh=10, year=2023)
res,nodes,roots,=sim_all(df,params,functions)
_,_,dag=all_nodes(df,params,functions)
def changed(r2):
    out=[]
    for c in res.columns:
        a=res[c].values; b=r2[c].values
        if a.dtype!=b.dtype or not np.array_equal(a,b,equal_nan=(a.dtype.kind=='f')): out.append(c)
    return set(out)
stats=collections.Counter()
# deep copy of params
r2=compute_taxes_and_transfers(df,copy.deepcopy(params),functions,targets=nodes); print("deepcopy params changed:", changed(r2))
# params group perturbation
def perturb(o, f):
    if isinstance(o,dict): return {k:(v if k=="rounding" else perturb(v,f)) for k,v in o.items()}
    if isinstance(o,(bool,np.bool_)): return o
    if isinstance(o,(int,float,np.floating,np.integer)) and np.isfinite(o): return type(o)(o*f) if not isinstance(o,int) else o
    if isinstance(o,np.ndarray) and o.dtype.kind=='f': return np.where(np.isfinite(o), o*f, o)
    return o
for g in params:
    p2=dict(params); p2[g]=perturb(copy.deepcopy(params[g]),1.07)
    users=[n for n in nodes if n in functions and g+"_params" in inspect.signature(functions[n]).parameters]
    # derived nodes have no params; users only original functions
    allowed=set(users)
    for u in users: allowed|=nx.descendants(dag,u)
    try:
        r2=compute_taxes_and_transfers(df,p2,functions,targets=nodes)
    except Exception as e: print(g,"EXC",type(e).__name__,str(e)[:100]); continue
    ch=changed(r2)
    print(g, "users",len(users),"changed",len(ch),"outside",sorted(ch-allowed)[:5])

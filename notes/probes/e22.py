import warnings; warnings.filterwarnings("ignore")
import numpy as np, sys, collections
from fractions import Fraction as F
from gettsim import set_up_policy_environment
from _gettsim.piecewise_functions import piecewise_polynomial
bad=collections.Counter(); seen=set(); nev=0
def ref(x,thr,rates,ic):
    # right-continuous: interval i with thr[i] <= x < thr[i+1]
    i=max(j for j in range(len(thr)-1) if thr[j]<=x)
    v=F(float(ic[i]))
    if i>0:
        inc=F(x)-F(float(thr[i]))
        for k in range(rates.shape[0]): v+=F(float(rates[k,i]))*inc**(k+1)
    return v
for date in sys.argv[1:]:
    params,_=set_up_policy_environment(date)
    for g,p in params.items():
        for name,v in p.items():
            if isinstance(v,dict) and "thresholds" in v and "rates" in v:
                thr,rates,ic=v["thresholds"],v["rates"],v["intercepts_at_lower_thresholds"]
                key=(g,name,thr.tobytes(),rates.tobytes(),ic.tobytes())
                if key in seen: continue
                seen.add(key)
                if not (thr[0]==-np.inf and thr[-1]==np.inf and np.all(np.diff(thr[1:-1])>0) and len(thr)==rates.shape[1]+1==len(ic)+1): bad[("structure",g,name,date)]+=1
                pts=[]
                for t in thr[1:-1]: pts+= [t, np.nextafter(t,-np.inf), np.nextafter(t,np.inf), t-0.01, t+0.01]
                fin=thr[1:-1]
                lo=(fin[0] if len(fin) else 0)-1000; hi=(fin[-1] if len(fin) else 0)+1000
                pts+=list(np.random.default_rng(0).uniform(lo,hi,50))+[-1e9,1e9]
                for x in pts:
                    got=piecewise_polynomial(x,thr,rates,ic); exp=ref(x,thr,rates,ic); nev+=1
                    if abs(F(float(got))-exp) > F(1,10**9)*(abs(exp)+1): bad[("eval",g,name,date,float(x),float(got),float(exp))]+=1
                # continuity report
                for j in range(1,len(thr)-1):
                    left=ref(np.nextafter(thr[j],-np.inf),thr,rates,ic); right=ref(thr[j],thr,rates,ic)
                    if abs(left-right)>F(1,100): bad[("discontinuous",g,name)]+=0
print(len(seen),"schedules",nev,"evaluations"); 
for k,v in bad.items(): print(k,v)

from lib import *
import collections
for date in ["2015-01-01","2023-07-01"]:
    params, functions = set_up_policy_environment(date)
    for g,p in params.items():
        if "rounding" in p:
            for k,v in p["rounding"].items(): print(date,g,k,v, "active" if k in functions else "-")
    marked={n:f.__info__["params_key_for_rounding"] for n,f in functions.items() if hasattr(f,"__info__") and "params_key_for_rounding" in f.__info__}
    print(len(marked), [ (n,k) for n,k in marked.items() if n not in params[k].get("rounding",{})])

from lib import *
from pop import gen_population
import sys, collections, functools, numbers
rng=np.random.default_rng(5)
viol=collections.defaultdict(collections.Counter)
def wrap(name,f):
    ann=f.__annotations__.get("return")
    info=getattr(f,"__info__",{})
    if info.get("skip_vectorization"): return f
    @functools.wraps(f)
    def g(*a,**k):
        r=f(*a,**k)
        t=type(r).__name__
        ok=True
        if ann is bool: ok=isinstance(r,(bool,np.bool_))
        elif ann is int: ok=isinstance(r,(int,np.integer)) and not isinstance(r,(bool,np.bool_)) or (isinstance(r,(float,np.floating)) and float(r).is_integer())
        elif ann is float: ok=isinstance(r,(int,float,np.integer,np.floating)) and not isinstance(r,(bool,np.bool_))
        if not ok: viol[(name,f.__name__,getattr(ann,"__name__",str(ann)))][t]+=1
        return r
    return g
for date in ["2005-01-01","2007-01-01","2012-01-01","2016-01-01","2019-07-01","2021-01-01","2023-07-01","2024-07-01"]:
    params, functions = set_up_policy_environment(date)
    fw={k:wrap(k,f) for k,f in functions.items()}
    for it in range(4):
        df=gen_population(rng, n_hh=10, year=int(date[:4]))
        try:
            nodes,roots,dag=all_nodes(df,params,fw, targets=[t for t in DEFAULT_TARGETS if not (t=="abgelt_st_y_sn" and date<"2009")]+(["erziehungsgeld_m"] if "2004"<=date<"2009" else []))
            res=compute_taxes_and_transfers(df,params,fw,targets=nodes)
        except Exception as e:
            print(date,"EXC",type(e).__name__,str(e)[:200].replace("\n"," "))
for k,v in sorted(viol.items()): print(k,dict(v))

from lib import *
from pop import gen_population
import sys, collections, copy, types, functools, inspect, networkx as nx
rng=np.random.default_rng(12); date="2023-07-01"
params, functions = set_up_policy_environment(date)
df=gen_population(rng, n_hh=8, year=2023)
res,nodes,roots=sim_all(df,params,functions)
_,_,dag=all_nodes(df,params,functions)
def changed(r2):
    return {c for c in res.columns if c in r2 and (res[c].values.dtype!=r2[c].values.dtype or not np.array_equal(res[c].values,r2[c].values,equal_nan=(res[c].values.dtype.kind=='f')))}
def clone(f):
    g=types.FunctionType(f.__code__,f.__globals__,f.__name__,f.__defaults__,f.__closure__)
    g.__dict__.update(copy.copy(f.__dict__)); g.__annotations__=dict(f.__annotations__); g.__kwdefaults__=f.__kwdefaults__; g.__doc__=f.__doc__; g.__module__=f.__module__; g.__qualname__=f.__qualname__
    return g
stats=collections.Counter()
for n in [x for x in nodes if x in functions]:
    f=functions[n]
    r2=compute_taxes_and_transfers(df,params,[functions,{n:clone(f)}],targets=nodes)
    ch=changed(r2)
    if ch: stats["identical-copy changed"]+=1; print("COPY",n,sorted(ch)[:3])
    # shifted
    ann=f.__annotations__.get("return")
    if getattr(f,"__info__",{}).get("skip_vectorization"): continue
    def mk(f,ann):
        @functools.wraps(f)
        def g(*a,**k):
            r=f(*a,**k)
            return (not r) if ann is bool else r+1
        g.__signature__=inspect.signature(f)
        return g
    try: r3=compute_taxes_and_transfers(df,params,[functions,{n:mk(f,ann)}],targets=nodes)
    except Exception as e: stats["exc "+type(e).__name__]+=1; continue
    ch=changed(r3); allowed={n}|nx.descendants(dag,n)
    if ch-allowed: stats["outside"]+=1; print("OUTSIDE",n,sorted(ch-allowed)[:5])
    stats["ok" if n in ch else "no-effect"]+=1
print(dict(stats))

from lib import *
from _gettsim.groupings import fg_id_numpy, bg_id_numpy, eg_id_numpy
import numpy as np
# A=0 partner B=1, child C=2 of B only
def run(order):
    p_id=np.array([0,1,2]); hh=np.array([0,0,0]); alter=np.array([40,38,10])
    partner=np.array([1,0,-1]); e1=np.array([-1,-1,1]); e2=np.array([-1,-1,-1])
    o=np.array(order)
    fg=fg_id_numpy(p_id[o],hh[o],alter[o],partner[o],e1[o],e2[o])
    return dict(zip(p_id[o].tolist(), fg.tolist()))
print("A,B,C", run([0,1,2]))
print("B,A,C", run([1,0,2]))
print("C,A,B", run([2,0,1]))
print("C,B,A", run([2,1,0]))

import sys, warnings, collections, time
warnings.filterwarnings("ignore")
sys.path.insert(0,"/tmp/x/deps")
import numpy as np
from lib import *
from pop import gen_population
import icontract
import _gettsim.aggregation as agg, _gettsim.aggregation_numpy as aggn, _gettsim.functions_loader as fl
# --- contract on grouped_sum_numpy, rebind where referenced
class AggBroken(Exception): pass
evals=collections.Counter()
def sum_is_groupwise(column, group_id, result):
    evals["grouped_sum"]+=1
    col=column.astype(int) if column.dtype==bool else column
    for g in np.unique(group_id):
        m=group_id==g
        if not np.allclose(result[m], col[m].sum(), rtol=1e-12, atol=1e-9): return False
    return True
orig=aggn.grouped_sum
wrapped=icontract.ensure(sum_is_groupwise, error=AggBroken)(orig)
for mod in list(sys.modules.values()):
    if mod and getattr(mod,"__name__","").startswith("_gettsim"):
        for k,v in list(vars(mod).items()):
            if v is orig: setattr(mod,k,wrapped); evals["rebound:"+mod.__name__+"."+k]+=1
# --- recording dict
reads=collections.Counter(); current=[None]
class RDict(dict):
    __slots__=("_path",)
    def __getitem__(self,k):
        v=dict.__getitem__(self,k); p=self._path+(k,)
        reads[(current[0],p)]+=1
        if type(v) is dict:
            v=RDict(v); v._path=p; dict.__setitem__(self,k,v)
        return v
    def get(self,k,d=None):
        return self[k] if k in self else d
def wrap_params(params):
    out={}
    for g,p in params.items():
        r=RDict(p); r._path=(g,); out[g]=r
    return out
# --- taps setting current rule
import functools, inspect
def tap(name,f):
    if getattr(f,"__info__",{}).get("skip_vectorization"): return f
    @functools.wraps(f)
    def g(*a,**k):
        current[0]=name
        return f(*a,**k)
    g.__signature__=inspect.signature(f)
    return g
# --- line coverage via sys.monitoring
mon=sys.monitoring; TOOL=mon.COVERAGE_ID; mon.use_tool_id(TOOL,"vf")
hits=set()
def on_line(code,line):
    if "/_gettsim/" in code.co_filename and "/parameters/" not in code.co_filename:
        hits.add((code.co_filename,code.co_name,line))
    return mon.DISABLE
mon.register_callback(TOOL,mon.events.LINE,on_line); mon.set_events(TOOL,mon.events.LINE)
params, functions = set_up_policy_environment("2023-07-01")
rng=np.random.default_rng(1)
fw={k:tap(k,f) for k,f in functions.items()}
pw=wrap_params(params)
t=time.time()
for it in range(5):
    df=gen_population(rng,n_hh=10,year=2023)
    res,nodes,roots=sim_all(df,pw,fw)
print("time",time.time()-t)
mon.set_events(TOOL,0)
print({k:v for k,v in evals.items()})
print("param paths read:",len(reads),"sample",list(reads.items())[:3])
byfunc=collections.Counter((f,n) for f,n,l in hits)
print("functions with lines hit:",len(byfunc), "lines",len(hits))
# coverage of rule bodies: compare to all lines of active functions
import dis
tot=0; hit=0; unreached=[]
for name,f in functions.items():
    if name not in nodes: continue
    code=f.__code__; lines={l for _,_,l in code.co_lines() if l and l>code.co_firstlineno}
    h={l for (fn,n,l) in hits if fn==code.co_filename and n==code.co_name}
    tot+=len(lines); hit+=len(lines&h)
    if lines-h: unreached.append((name,len(lines-h)))
print("rule-body lines",tot,"hit",hit,"rules with unreached lines",len(unreached),unreached[:8])

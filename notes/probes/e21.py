from lib import *
import sys, collections, datetime
date=sys.argv[1]
params, functions = set_up_policy_environment(date)
year=int(date[:4])
sv=params["sozialv_beitr"]
mini=None
res_all={}
bad=collections.Counter()
for ost in [False,True]:
  for kids in [False,True]:
    grid=np.unique(np.round(np.concatenate([np.linspace(0,9000,1801),
        [sv["geringfügige_eink_grenzen_m"]["midijob"]+d for d in (-0.01,0,0.01)],
        [v+d for k in sv["beitr_bemess_grenze_m"].values() for v in k.values() for d in (-0.01,0,0.01)],
        ]),2))
    n=len(grid)
    df=create_synthetic_data(n_adults=1,n_children=0,specs_heterogeneous={"bruttolohn_m":[[float(w)] for w in grid]},policy_year=2023)
    df["wohnort_ost"]=ost; df["ges_pflegev_hat_kinder"]=kids; df["alter"]=40; df["geburtsjahr"]=year-40
    cols=["ges_rentenv_beitr_arbeitnehmer_m","ges_krankenv_beitr_arbeitnehmer_m","arbeitsl_v_beitr_arbeitnehmer_m","ges_pflegev_beitr_arbeitnehmer_m","ges_rentenv_beitr_arbeitgeber_m","geringfügig_beschäftigt","in_gleitzone","minijob_grenze","_ges_rentenv_beitr_midijob_sum_arbeitnehmer_arbeitgeber_m","ges_krankenv_beitr_arbeitgeber_m","arbeitsl_v_beitr_arbeitgeber_m","ges_pflegev_beitr_arbeitgeber_m","_ges_krankenv_beitr_midijob_sum_arbeitnehmer_arbeitgeber_m","_arbeitsl_v_beitr_midijob_sum_arbeitnehmer_arbeitgeber_m","_ges_pflegev_beitr_midijob_sum_arbeitnehmer_arbeitgeber_m"]
    r=compute_taxes_and_transfers(df,params,functions,targets=cols)
    w=df.bruttolohn_m.values
    M=sv["geringfügige_eink_grenzen_m"]["midijob"]
    for br,ceilkey in [("ges_rentenv","ges_rentenv"),("arbeitsl_v","ges_rentenv"),("ges_krankenv","ges_krankenv"),("ges_pflegev","ges_krankenv")]:
        v=r[br+"_beitr_arbeitnehmer_m"].values
        if (v<0).any(): bad[(br,"neg")]+=1
        d=np.diff(v)
        if (d<-1e-9).any():
            i=np.argmin(d); bad[(br,"decreasing", ost,kids, float(w[i]),float(w[i+1]),float(v[i]),float(v[i+1]))]+=1
        if (v[r["geringfügig_beschäftigt"].values]!=0).any(): bad[(br,"nonzero minijob")]+=1
        ceil=sv["beitr_bemess_grenze_m"][ceilkey]["ost" if ost else "west"]
        above=v[w>=ceil]
        if len(above) and np.ptp(above)>1e-9: bad[(br,"not flat above ceiling")]+=1
        # jump at top of zone
        i=np.searchsorted(w,M)
        if abs(v[i]-v[i-1])>0.01: bad[(br,"jump at midijob top",ost,kids,float(w[i-1]),float(w[i]),float(v[i-1]),float(v[i]))]+=1
        gz=r["in_gleitzone"].values
        tot=r["_"+br+"_beitr_midijob_sum_arbeitnehmer_arbeitgeber_m"].values
        ag=r[br+"_beitr_arbeitgeber_m"].values
        if not np.allclose((v+ag)[gz],tot[gz],atol=1e-9): bad[(br,"AN+AG!=total in zone",ost,kids,float(np.abs((v+ag)-tot)[gz].max()))]+=1
print(date, dict(bad) if bad else "OK")

from lib import *
from pop import gen_population
import sys, collections, re
from _gettsim.config import SUPPORTED_GROUPINGS
rng=np.random.default_rng(int(sys.argv[1]))
date=sys.argv[2]
params, functions = set_up_policy_environment(date)
bad=collections.Counter(); seen=set()
for it in range(10):
    df=gen_population(rng, n_hh=10, year=int(date[:4]), corner=True)
    res,nodes,roots=sim_all(df,params,functions)
    full=pd.concat([df.reset_index(drop=True), res[[c for c in res.columns if c not in df.columns]]],axis=1)
    for c in res.columns:
        for g in SUPPORTED_GROUPINGS:
            if c.endswith("_"+g) and g+"_id" in full:
                seen.add(c)
                nun=full.groupby(g+"_id")[c].nunique(dropna=False)
                if (nun>1).any(): bad[("C15",c)]+=1
    # time units
    for c in res.columns:
        m=re.fullmatch(r"(.*_)([ymwd])(_(?:hh|wthh|fg|bg|eg|ehe|sn))?", c)
        if m and m.group(2)=="m":
            y=m.group(1)+"y"+(m.group(3) or "")
            if y in res.columns:
                if not np.allclose(res[y].astype(float), res[c].astype(float)*12, rtol=1e-12, atol=1e-9): bad[("C13",c,y)]+=1
print(date, len(seen), dict(bad))

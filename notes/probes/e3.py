from lib import *
import time
params, functions = set_up_policy_environment("2023-07-01")
df = create_synthetic_data(n_adults=2, n_children=2, specs_heterogeneous={"bruttolohn_m": [[1000.0*i, 500.0*i, 0,0] for i in range(8)]}, policy_year=2023)
t=time.time()
res, nodes, roots = sim_all(df, params, functions)
print(time.time()-t, len(nodes), len(roots))
print(sorted(roots))
print(res.dtypes.value_counts())
# permute
rng = np.random.default_rng(0)
perm = rng.permutation(len(df))
df2 = df.iloc[perm].reset_index(drop=True)
res2, _, _ = sim_all(df2, params, functions)
a = res.assign(p_id=df.p_id.values).set_index("p_id").sort_index()
b = res2.assign(p_id=df2.p_id.values).set_index("p_id").sort_index()
for c in a.columns:
    if c.endswith("_id"): continue
    if not np.array_equal(a[c].values, b[c].values, equal_nan=True) or a[c].dtype!=b[c].dtype:
        print("DIFF", c, a[c].dtype, b[c].dtype, np.abs(a[c].astype(float)-b[c].astype(float)).max())

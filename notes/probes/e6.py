import warnings, inspect, datetime, collections, copy, sys
warnings.filterwarnings("ignore")
import numpy as np
from gettsim import set_up_policy_environment
from _gettsim.functions_loader import load_internal_functions
from _gettsim.vectorization import make_vectorizable, TranslateToVectorizableError
from _gettsim.policy_environment import is_time_dependent
rng=np.random.default_rng(0)
funcs=load_internal_functions()
funcs={k:v for k,v in funcs.items()}
print(len(funcs))
envcache={}
def env(d):
    if d not in envcache: envcache[d]=set_up_policy_environment(d)[0]
    return envcache[d]
def gen(name, ann, n):
    if ann is bool or ann=='bool': return rng.random(n)<.5
    if ann is int or ann=='int':
        if "alter" in name: return rng.integers(0,100,n)
        if "jahr" in name: return rng.integers(1930,2024,n)
        if "monat" in name: return rng.integers(1,13,n)
        if "anz" in name: return rng.integers(0,5,n)
        return rng.integers(0,6,n)
    return rng.choice([0.,1.,100.,450.,520.,1000.,2500.,8000.,60000.],n)*rng.choice([1.,1.,0.5,1.37],n)
stats=collections.Counter(); details=[]
orig_mods={}
for name,f in funcs.items():
    info=getattr(f,"__info__",{})
    if info.get("skip_vectorization"): stats["skip"]+=1; continue
    sd=info.get("start_date",datetime.date(1,1,1)); ed=info.get("end_date",datetime.date(9999,12,31))
    d=max(sd, datetime.date(1990,1,1))
    if ed>=datetime.date(2023,1,1) and sd<=datetime.date(2023,1,1): d=datetime.date(2023,1,1)
    try: params=env(d)
    except Exception as e: stats["envfail"]+=1; continue
    sig=inspect.signature(f)
    n=7
    args={}
    for p,par in sig.parameters.items():
        if p.endswith("_params"): args[p]=params[p[:-7]]
        else: args[p]=gen(p, f.__annotations__.get(p,float), n)
    # scalar reference
    ref=[];  scalar_err=None
    for i in range(n):
        a={k:(v if k.endswith("_params") else v[i].item()) for k,v in args.items()}
        try: ref.append(f(**a))
        except Exception as e: ref.append(("EXC",type(e).__name__))
    g=copy.copy(f.__globals__.get(f.__name__))
    try:
        vf=make_vectorizable(f,"numpy")
    except Exception as e:
        stats["rewrite_fail:"+type(e).__name__]+=1; continue
    try:
        out=vf(**args)
    except Exception as e:
        stats["call_raises:"+type(e).__name__]+=1; continue
    out=np.asarray(out)
    if out.shape!=(n,):
        if out.shape==():  # scalar result, broadcast
            try: bad=[i for i in range(n) if not isinstance(ref[i],tuple) and not np.isclose(float(ref[i]), float(out), rtol=1e-9, atol=1e-9, equal_nan=True)]
            except Exception as e: stats["uncomparable"]+=1; continue
            if bad: stats["MISMATCH-scalar"]+=1; details.append((name,f.__name__,"scalar-out",ref, out.tolist()))
            else: stats["ok-scalarout"]+=1
        else: stats["shape?"]+=1
        continue
    bad=[]
    for i in range(n):
        if isinstance(ref[i],tuple): continue
        try:
            if not np.isclose(float(ref[i]), float(out[i]), rtol=1e-9, atol=1e-9, equal_nan=True): bad.append(i)
        except Exception as e: bad.append(i)
    if bad: stats["MISMATCH"]+=1; details.append((name,f.__name__,bad,[ref[i] for i in bad],[out[i] for i in bad]))
    else: stats["ok"]+=1
print(stats)
for d in details: print(d)

import warnings; warnings.filterwarnings("ignore")
import datetime, pickle, yaml, numpy as np, time, sys
import _gettsim.policy_environment as pe
from _gettsim.config import RESOURCE_DIR, INTERNAL_PARAMS_GROUPS
from _gettsim.functions_loader import load_internal_functions
_orig=yaml.load; _cache={}
def cached_load(text, Loader=None):
    k=hash(text)
    if k not in _cache: _cache[k]=pickle.dumps(_orig(text, Loader=Loader))
    return pickle.loads(_cache[k])
pe.yaml.load=cached_load
def canon(o):
    if isinstance(o,dict): return {k:canon(v) for k,v in o.items() if k!="datum"}
    if isinstance(o,np.ndarray): return ("arr",o.dtype.str,o.shape,o.tolist())
    if isinstance(o,(np.floating,np.integer)): return (type(o).__name__, o.item())
    return o
# change dates
cd=set()
for g in INTERNAL_PARAMS_GROUPS:
    raw=yaml.load((RESOURCE_DIR/"parameters"/f"{g}.yaml").read_text(encoding="utf-8"),Loader=yaml.CLoader)
    def walk(o,depth=0):
        if isinstance(o,dict):
            for k,v in o.items():
                if isinstance(k,datetime.date): cd.add(k)
                if depth<3: walk(v,depth+1)
    walk(raw)
for f in load_internal_functions().values():
    i=getattr(f,"__info__",None)
    if i and "start_date" in i:
        cd.add(i["start_date"]); 
        if i["end_date"].year<9999: cd.add(i["end_date"]+datetime.timedelta(days=1))
print(len(cd))
y0=int(sys.argv[1]); y1=int(sys.argv[2])
d=datetime.date(y0,1,1); prev=None; t=time.time(); n=0; unexpected=[]
while d<datetime.date(y1,1,1):
    p,f=pe.set_up_policy_environment(d)
    cur=(canon(p),{k:v.__name__ for k,v in f.items()})
    if prev is not None and cur!=prev:
        expected = d in cd or (d.month,d.day)==(1,1) or datetime.date(d.year-1,d.month,d.day if not (d.month==2 and d.day==29) else 28) in cd
        if not expected:
            diffg=[g for g in cur[0] if cur[0][g]!=prev[0].get(g)]
            unexpected.append((str(d),diffg))
    prev=cur; d+=datetime.timedelta(days=1); n+=1
print(n,"days",time.time()-t,"s; unexpected changes:",unexpected)

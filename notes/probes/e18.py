from lib import *
params, functions = set_up_policy_environment("2023-01-01")
df = create_synthetic_data(n_adults=1, n_children=0, policy_year=2023)
d = {c: df[c] for c in df.columns}
d["alter"]=d["alter"].astype(float)
before={k:(id(v),v.dtype) for k,v in d.items()}
compute_taxes_and_transfers(d, params, functions, targets=["kindergeld_m"])
after={k:(id(v),v.dtype) for k,v in d.items()}
print({k:(before[k][1],after[k][1]) for k in before if before[k]!=after[k]})

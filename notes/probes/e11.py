from lib import *
from pop import gen_population
rng=np.random.default_rng(7)
date="2023-07-01"
params, functions = set_up_policy_environment(date)
df=gen_population(rng, n_hh=10, year=2023)
# make floats exactly representable in float32
for c in df.columns:
    if df[c].dtype==float: df[c]=np.round(df[c]*4)/4
base=compute_taxes_and_transfers(df,params,functions)
def cmp(tag, d2):
    try:
        with warnings.catch_warnings(record=True) as w:
            warnings.simplefilter("always")
            r=compute_taxes_and_transfers(d2,params,functions)
        diffs={c: float(np.abs(base[c].astype(float)-r[c].astype(float)).max()) for c in base.columns}
        diffs={c:v for c,v in diffs.items() if v>0}
        print(tag, "warn=",len(w), "diffs", diffs)
    except Exception as e: print(tag,"EXC",type(e).__name__,str(e)[:200].replace("\n"," "))
d2=df.copy()
for c in d2.columns:
    if d2[c].dtype==float: d2[c]=d2[c].astype(np.float32)
cmp("float32",d2)
d2=df.copy()
for c in d2.columns:
    if d2[c].dtype==np.int64: d2[c]=d2[c].astype(np.int32)
cmp("int32",d2)
d2=df.copy()
for c in d2.columns:
    if d2[c].dtype==np.int64: d2[c]=d2[c].astype(float)
cmp("int as float",d2)
d2=df.copy()
for c in d2.columns:
    if d2[c].dtype==bool: d2[c]=d2[c].astype(int)
cmp("bool as int",d2)
d2=df.copy()
for c in d2.columns:
    if d2[c].dtype==float and (d2[c]==d2[c].round()).all(): d2[c]=d2[c].astype(int)
cmp("float as int",d2)
d2=df.copy()
for c in d2.columns:
    if d2[c].dtype==bool: d2[c]=d2[c].astype(float)
cmp("bool as float",d2)
d2=df.copy(); d2["alter"]=d2["alter"].astype("Int64"); cmp("nullable Int64",d2)
d2=df.copy(); d2["bruttolohn_m"]=d2["bruttolohn_m"].astype("Float64"); cmp("nullable Float64",d2)
d2=df.copy(); d2["kind"]=d2["kind"].astype("boolean"); cmp("nullable boolean",d2)
d2=df.copy(); d2["alter"]=d2["alter"].astype(np.uint8); cmp("uint8 alter",d2)
d2=df.copy(); d2["hh_id"]=d2["hh_id"].astype(np.int8); d2["p_id"]=d2["p_id"].astype(np.int8); cmp("int8 ids",d2)

import warnings, inspect
warnings.filterwarnings("ignore")
import numpy as np, pandas as pd
import gettsim
from gettsim import set_up_policy_environment, compute_taxes_and_transfers, create_synthetic_data
from _gettsim.functions_loader import load_and_check_functions
from _gettsim.interface import set_up_dag, _process_and_check_data
from _gettsim.config import DEFAULT_TARGETS, TYPES_INPUT_VARIABLES
import dags

def all_nodes(df, params, functions, targets=None):
    targets = DEFAULT_TARGETS if targets is None else targets
    fn, fo = load_and_check_functions(functions, list(targets), list(df.columns), {}, {})
    dag = set_up_dag(fn, list(targets), set(fo), "ignore")
    nodes = [n for n in dag.nodes if n in fn]
    roots = [n for n in dag.nodes if n not in fn]
    return nodes, roots, dag

def sim_all(df, params, functions, **kw):
    nodes, roots, dag = all_nodes(df, params, functions)
    res = compute_taxes_and_transfers(df, params, functions, targets=nodes, **kw)
    return res, nodes, roots

import warnings; warnings.filterwarnings("ignore")
import sys, datetime, numpy as np, collections
from pref import Ref
import _gettsim.policy_environment as pe
from _gettsim.config import RESOURCE_DIR, INTERNAL_PARAMS_GROUPS
ref=Ref(RESOURCE_DIR/"parameters")
def same(a,b,path=""):
    if isinstance(a,dict) and isinstance(b,dict):
        out=[]
        for k in set(a)|set(b):
            if k not in a or k not in b: out.append((path+"/"+str(k),"missing in "+("prod" if k not in a else "ref"))); continue
            out+=same(a[k],b[k],path+"/"+str(k))
        return out
    if isinstance(a,(int,float,np.floating,np.integer)) and isinstance(b,(int,float)) and not isinstance(a,bool):
        return [] if (a==b or (np.isinf(a) and np.isinf(b) and a==b)) else [(path,a,b)]
    return [] if a==b and type(a)==type(b) else [(path,a,b)]
stats=collections.Counter()
for ds in sys.argv[1:]:
    date=datetime.date.fromisoformat(ds)
    for g in INTERNAL_PARAMS_GROUPS:
        prod=pe._load_parameter_group_from_yaml(date,g)   # before piecewise parsing
        raw=ref.load(g)
        for p in raw:
            if p=="rounding": continue
            exp=ref.value(g,p,date)
            if exp is None:
                if p in prod: stats["prod has, ref none"]+=1; print(ds,g,p,"prod has value but ref None")
                continue
            if p not in prod: stats["prod missing"]+=1; print(ds,g,p,"MISSING in prod"); continue
            got=dict(prod[p]) if isinstance(prod[p],dict) else prod[p]
            if isinstance(got,dict):
                for k in ("type","progressionsfaktor"): got.pop(k,None)
            d=same(got,exp)
            stats["compared"]+=1
            if d: stats["diff"]+=1; print(ds,g,p,d[:3])
print(dict(stats))

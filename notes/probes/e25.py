from lib import *
from pop import gen_population
params, functions = set_up_policy_environment("2023-07-01")
rng=np.random.default_rng(1)
df=gen_population(rng, n_hh=6, year=2023)
nodes,roots,dag=all_nodes(df,params,functions)
print(sorted(nodes))

import warnings; warnings.filterwarnings("ignore")
import numpy as np, itertools, collections, sys, time
from _gettsim.groupings import fg_id_numpy, bg_id_numpy, eg_id_numpy, ehe_id_numpy, sn_id_numpy
def part(ids,pid):
    d=collections.defaultdict(set)
    for i,p in zip(ids,pid): d[int(i)].add(int(p))
    return frozenset(frozenset(v) for v in d.values())
def ref_fg(P):
    # P: list of dict(p, hh, age, partner, e1, e2)
    by={x["p"]:x for x in P}
    children=collections.defaultdict(list)
    for x in P:
        for e in (x["e1"],x["e2"]):
            if e>=0: children[e].append(x["p"])
    def eligible_child(c, parent):
        return by[c]["hh"]==by[parent]["hh"] and by[c]["age"]<25 and len(children[c])==0
    # union: start with everyone alone; heads = persons not eligible child of anyone
    groups={x["p"]:{x["p"]} for x in P}
    def union(a,b):
        ga,gb=groups[a],groups[b]
        if ga is gb: return
        ga|=gb
        for m in gb: groups[m]=ga
    for x in P:
        if x["partner"]>=0: union(x["p"],x["partner"])
    for x in P:
        for e in (x["e1"],x["e2"]):
            if e>=0 and eligible_child(x["p"],e): union(x["p"],e)
    return frozenset(frozenset(g) for g in groups.values())
def valid(P):
    by={x["p"]:x for x in P}
    children=collections.defaultdict(list)
    for x in P:
        for e in (x["e1"],x["e2"]):
            if e>=0: children[e].append(x["p"])
    for x in P:
        if x["partner"]>=0:
            y=by[x["partner"]]
            if y["partner"]!=x["p"] or y["hh"]!=x["hh"]: return False
            if x["age"]<16: return False
        if x["e1"]>=0 and x["e1"]==x["e2"]: return False
        if x["e1"]<0 and x["e2"]>=0: return False
        for e in (x["e1"],x["e2"]):
            if e>=0 and by[e]["age"]<x["age"]+14: return False
        # ambiguity exclusions
        elig=[e for e in (x["e1"],x["e2"]) if e>=0 and by[e]["hh"]==x["hh"] and x["age"]<25 and len(children[x["p"]])==0]
        if elig and x["partner"]>=0: return False
        if len(elig)==2 and by[elig[0]]["partner"]!=elig[1]: return False  # two co-resident parents who are not partners
    return True
n=int(sys.argv[1]); ages=[5,20,30,50,75]
cnt=collections.Counter(); t=time.time(); witnesses=[]
for age in itertools.product(ages,repeat=n):
  if list(age)!=sorted(age,reverse=True): continue   # canonical: sort by age desc (p_id order); row order permuted separately
  for hh in itertools.product(range(2),repeat=n):
    if hh[0]!=0: continue
    # partner matchings
    def matchings(idx):
        if not idx: yield {}; return
        a=idx[0]; rest=idx[1:]
        for m in matchings(rest): yield m
        for j,b in enumerate(rest):
            for m in matchings(rest[:j]+rest[j+1:]):
                mm=dict(m); mm[a]=b; mm[b]=a; yield mm
    for m in matchings(list(range(n))):
      partner=[m.get(i,-1) for i in range(n)]
      for par in itertools.product([(-1,-1)]+[(a,-1) for a in range(n)]+[(a,b) for a in range(n) for b in range(n) if a<b], repeat=n):
        P=[dict(p=i,hh=hh[i],age=age[i],partner=partner[i],e1=par[i][0],e2=par[i][1]) for i in range(n)]
        if any(par[i][0]==i or par[i][1]==i for i in range(n)): continue
        if not valid(P): continue
        cnt["structures"]+=1
        exp=ref_fg(P)
        for order in itertools.permutations(range(n)):
            o=list(order)
            arr=lambda k: np.array([P[i][k] for i in o])
            fg=fg_id_numpy(arr("p"),arr("hh"),arr("age"),arr("partner"),arr("e1"),arr("e2"))
            cnt["calls"]+=1
            if part(fg,arr("p"))!=exp:
                cnt["MISMATCH"]+=1
                if len(witnesses)<5: witnesses.append((P,o,fg.tolist()))
print(dict(cnt), time.time()-t)
for w in witnesses: print(w)

from lib import *
from pop import gen_population
import sys, collections
rng=np.random.default_rng(3)
date="2023-07-01"
params, functions = set_up_policy_environment(date)
df=gen_population(rng, n_hh=8, year=2023)
res,nodes,roots=sim_all(df,params,functions)
base=compute_taxes_and_transfers(df,params,functions)
stats=collections.Counter()
for n in nodes:
    d2=df.copy(); d2[n]=res[n].values
    try:
        with warnings.catch_warnings(record=True) as w:
            warnings.simplefilter("always")
            r2=compute_taxes_and_transfers(d2,params,functions)
        warned=any("FunctionsAndColumnsOverlapWarning" in type(x.message).__name__ for x in w)
    except Exception as e:
        stats["exc"]+=1; print("EXC",n,type(e).__name__,str(e)[:150].replace("\n"," ")); continue
    if not warned: stats["nowarn"]+=1; print("NOWARN", n)
    diffs=[c for c in base.columns if not np.allclose(base[c].values.astype(float), r2[c].values.astype(float), rtol=1e-9, atol=1e-9, equal_nan=True)]
    if diffs: stats["diff"]+=1; print("DIFF",n,res[n].dtype,diffs[:4], float(np.abs(base[diffs[0]].astype(float)-r2[diffs[0]].astype(float)).max()))
    else: stats["ok"]+=1
print(stats)

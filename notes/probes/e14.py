import warnings; warnings.filterwarnings("ignore")
import numpy as np, collections
from _gettsim.aggregation import *
from _gettsim.shared import join_numpy
rng=np.random.default_rng(0)
bad=collections.Counter()
for it in range(300):
    n=rng.integers(1,30)
    ids=rng.choice(rng.choice(200000, size=rng.integers(1,8), replace=False), n)
    for kind,col in [("float",rng.normal(0,1000,n)),("int",rng.integers(-50,50,n)),("bool",rng.random(n)<.5)]:
        for name,f,ref in [("sum",grouped_sum,lambda v: v.sum()),("mean",grouped_mean,lambda v:v.mean()),("max",grouped_max,lambda v:v.max()),("min",grouped_min,lambda v:v.min()),("any",grouped_any,lambda v:v.any()),("all",grouped_all,lambda v:v.all())]:
            try: out=f(col,ids)
            except TypeError as e: bad[("typeerr",name,kind)]+=1; continue
            exp=np.array([ref(col[ids==g]) for g in ids])
            if not np.allclose(np.asarray(out,float),np.asarray(exp,float),rtol=1e-12,atol=1e-9): bad[("WRONG",name,kind)]+=1
    out=grouped_count(ids); exp=np.array([(ids==g).sum() for g in ids])
    if not np.array_equal(out,exp): bad[("WRONG","count")]+=1
    # dates
    d=np.array(rng.integers(0,20000,n),dtype="datetime64[D]")
    for name,f,ref in [("max",grouped_max,np.max),("min",grouped_min,np.min)]:
        out=f(d,ids); exp=np.array([ref(d[ids==g]) for g in ids])
        if not np.array_equal(out,exp): bad[("WRONG",name,"date")]+=1
    # sum_by_p_id
    p=rng.permutation(rng.choice(10**6,n,replace=False)); ptr=np.where(rng.random(n)<.5, rng.choice(p,n), -1-rng.integers(0,3,n))
    col=rng.normal(0,100,n)
    out=sum_by_p_id(col,ptr,p); exp=np.array([col[ptr==q].sum() for q in p])
    if not np.allclose(out,exp): bad[("WRONG","sum_by_p_id")]+=1
    out=join_numpy(ptr,p,col,-99.0); exp=np.array([col[p==q][0] if q>=0 else -99.0 for q in ptr])
    if not np.allclose(out,exp): bad[("WRONG","join")]+=1
print(dict(bad))

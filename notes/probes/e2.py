import time, warnings, cProfile, pstats
warnings.filterwarnings("ignore")
from gettsim import set_up_policy_environment
set_up_policy_environment("2023-07-01")
pr=cProfile.Profile(); pr.enable()
set_up_policy_environment("2021-03-05")
pr.disable()
pstats.Stats(pr).sort_stats("cumulative").print_stats(18)

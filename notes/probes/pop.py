"""scratch population generator"""
import numpy as np, pandas as pd
from _gettsim.config import TYPES_INPUT_VARIABLES

def gen_population(rng, n_hh=6, year=2023, corner=False):
    rows=[]; pid=0
    for h in range(n_hh):
        kind = rng.choice(["single","couple_m","couple_u","single_parent","family_m","family_u","patchwork","pensioner","pens_couple","adult_child"])
        members=[]
        def person(age, **kw):
            nonlocal pid
            d=dict(p_id=pid, hh_id=h, alter=int(age), rentner=False, in_ausbildung=False, p_id_ehepartner=-1,p_id_einstandspartner=-1,p_id_elternteil_1=-1,p_id_elternteil_2=-1, kind=False)
            d.update(kw); pid+=1; members.append(d); return d
        def couple(a,b,married):
            a["p_id_einstandspartner"]=b["p_id"]; b["p_id_einstandspartner"]=a["p_id"]
            if married:
                a["p_id_ehepartner"]=b["p_id"]; b["p_id_ehepartner"]=a["p_id"]
        if kind=="single": person(rng.integers(18,66))
        elif kind in("couple_m","couple_u"):
            a=person(rng.integers(20,66)); b=person(rng.integers(20,66)); couple(a,b,kind=="couple_m")
        elif kind=="single_parent":
            a=person(rng.integers(25,55))
            for _ in range(rng.integers(1,4)): person(rng.integers(0,18), kind=True, p_id_elternteil_1=a["p_id"])
        elif kind in("family_m","family_u"):
            a=person(rng.integers(25,55)); b=person(rng.integers(25,55)); couple(a,b,kind=="family_m")
            for _ in range(rng.integers(1,4)): person(rng.integers(0,18), kind=True, p_id_elternteil_1=a["p_id"], p_id_elternteil_2=b["p_id"])
        elif kind=="patchwork":
            a=person(rng.integers(25,55)); b=person(rng.integers(25,55)); couple(a,b,rng.random()<.5)
            person(rng.integers(0,18), kind=True, p_id_elternteil_1=a["p_id"])
            person(rng.integers(0,18), kind=True, p_id_elternteil_1=b["p_id"])
            if rng.random()<.5: person(rng.integers(0,10), kind=True, p_id_elternteil_1=a["p_id"], p_id_elternteil_2=b["p_id"])
        elif kind=="pensioner": person(rng.integers(66,95), rentner=True)
        elif kind=="pens_couple":
            a=person(rng.integers(66,95), rentner=True); b=person(rng.integers(60,95), rentner=bool(rng.random()<.7)); couple(a,b,True)
        elif kind=="adult_child":
            a=person(rng.integers(45,65)); person(rng.integers(18,30), p_id_elternteil_1=a["p_id"], in_ausbildung=bool(rng.random()<.5))
        rows+=members
    df=pd.DataFrame(rows)
    n=len(df)
    df["rentner"]=df["rentner"].astype(bool); df["in_ausbildung"]=df["in_ausbildung"].astype(bool)|df["kind"]
    adult=~df["kind"].values
    def wage():
        c=rng.choice([0,0,450,520,520.01,538,1000,1300,2000,2000.01,3000,5000,7300,7550,10000,50000 if corner else 8000])
        return float(c if rng.random()<.5 else rng.uniform(0,6000))
    df["bruttolohn_m"]=[wage() if a and not r else 0.0 for a,r in zip(adult,df.rentner)]
    df["weiblich"]=rng.random(n)<.5
    df["geburtsjahr"]=year-df.alter; df["geburtsmonat"]=rng.integers(1,13,n); df["geburtstag"]=rng.integers(1,29,n)
    df["jahr_renteneintr"]=np.where(df.rentner, df.geburtsjahr+65, df.geburtsjahr+67); df["monat_renteneintr"]=1
    df["gemeinsam_veranlagt"]=df.p_id_ehepartner>=0
    hhs=df.hh_id.values
    per_hh=lambda vals: np.array(vals)[hhs]
    df["bruttokaltmiete_m_hh"]=per_hh(rng.choice([0.,300.,450.,700.,1500.],n_hh))
    df["heizkosten_m_hh"]=per_hh(rng.choice([0.,60.,120.],n_hh))
    df["wohnfläche_hh"]=per_hh(rng.choice([30.,60.,90.,150.],n_hh))
    df["bewohnt_eigentum_hh"]=per_hh(rng.random(n_hh)<.2)
    df["immobilie_baujahr_hh"]=per_hh(rng.integers(1950,2020,n_hh))
    df["wohnort_ost"]=per_hh(rng.random(n_hh)<.3)
    df["mietstufe"]=per_hh(rng.integers(1,7,n_hh))
    df["p_id_kindergeld_empf"]=np.where(df.kind|((df.alter<25)&(df.p_id_elternteil_1>=0)), df.p_id_elternteil_1, -1)
    df["p_id_erziehgeld_empf"]=-1
    df["p_id_betreuungsk_träger"]=np.where(df.kind, df.p_id_elternteil_1,-1)
    df["alleinerz"]=False
    for i,r in df.iterrows():
        if not r.kind and r.p_id_einstandspartner<0 and ((df.p_id_elternteil_1==r.p_id)&df.kind).any(): df.loc[i,"alleinerz"]=True
    df["ges_pflegev_hat_kinder"]=[bool(((df.p_id_elternteil_1==p)|(df.p_id_elternteil_2==p)).any()) for p in df.p_id]
    df["vermögen_bedürft"]=[float(rng.choice([0,0,5000,20000,100000,1e7 if corner else 200000])) if a else 0.0 for a in adult]
    df["eink_selbst_m"]=[float(rng.choice([0,0,0,500,3000])) if a else 0.0 for a in adult]
    df["kapitaleink_brutto_m"]=[float(rng.choice([0,0,50,100,2000])) if a else 0.0 for a in adult]
    df["eink_vermietung_m"]=[float(rng.choice([0,0,0,400,-300])) if a else 0.0 for a in adult]
    df["sonstig_eink_m"]=[float(rng.choice([0,0,0,200])) if a else 0.0 for a in adult]
    df["arbeitsstunden_w"]=np.where(df.bruttolohn_m>0, rng.choice([10.,20.,30.,40.],n), 0.0)
    df["bruttolohn_vorj_m"]=df.bruttolohn_m*rng.choice([0,1,1.1],n)
    df["priv_rente_m"]=np.where(df.rentner, rng.choice([0.,100.,500.],n),0.)
    df["entgeltp_west"]=np.where(adult, np.clip(df.alter-20,0,45)*rng.uniform(0,1.5,n),0.); df["entgeltp_ost"]=0.0
    df["grundr_zeiten"]=np.clip(df.alter-20,0,None)*12; df["grundr_bew_zeiten"]=(df.grundr_zeiten*rng.choice([0,0.5,1],n)).astype(int)
    df["grundr_entgeltp"]=df.entgeltp_west*0.8
    df["m_pflichtbeitrag"]=(np.clip(df.alter-25,0,None)*12).astype(float)
    df["elterngeld_claimed"]=[bool(a and rng.random()<.2) for a in adult]
    df["elterngeld_nettoeinkommen_vorjahr_m"]=np.where(adult, rng.choice([0.,1000.,2000.,4000.],n),0.)
    df["elterngeld_zu_verst_eink_vorjahr_y_sn"]=0.0
    df["monate_elterngeldbezug"]=rng.integers(0,14,n)
    df["steuerklasse"]=np.where(df.p_id_ehepartner>=0, rng.choice([3,4,5],n), np.where(df.alleinerz,2,1))
    df["arbeitssuchend"]=[bool(a and rng.random()<.15) for a in adult]
    df["anwartschaftszeit"]=df.arbeitssuchend
    df["m_durchg_alg1_bezug"]=np.where(df.arbeitssuchend, rng.choice([0.,3.,11.],n),0.)
    df["sozialv_pflicht_5j"]=np.where(adult, rng.choice([0.,12.,36.,60.],n),0.)
    df["kind_unterh_anspr_m"]=0.0; df["kind_unterh_erhalt_m"]=0.0
    df["betreuungskost_m"]=np.where(df.kind, rng.choice([0.,100.,400.],n),0.)
    df["behinderungsgrad"]=rng.choice([0,0,0,50,100],n)
    df["schwerbeh_g"]=df.behinderungsgrad>=50
    df["in_priv_krankenv"]=[bool(a and rng.random()<.1) for a in adult]
    df["selbstständig"]=df.eink_selbst_m>0
    df["priv_rentenv_beitr_m"]=np.where(adult, rng.choice([0.,0.,100.],n),0.)
    df["bürgerg_bezug_vorj"]=rng.random(n)<.5
    df["eigenbedarf_gedeckt"]=[bool(k and rng.random()<.15) for k in df.kind]
    for col,t in TYPES_INPUT_VARIABLES.items():
        if col not in df:
            df[col]= False if t==bool else (0 if t==int else 0.0)
    for col,t in TYPES_INPUT_VARIABLES.items():
        df[col]=df[col].astype({bool:bool,int:np.int64,float:float}[t])
    return df

from lib import *
from _gettsim.vectorization import make_vectorizable
from _gettsim.shared import TIME_DEPENDENT_FUNCTIONS
import _gettsim.social_insurance_contributions.ges_pflegev as m
params, functions = set_up_policy_environment("2022-01-01")
df = create_synthetic_data(n_adults=1, n_children=1, specs_heterogeneous={"bruttolohn_m": [[3000.0,0.0]]}, policy_year=2022)
r1 = compute_taxes_and_transfers(df, params, functions, targets=["ges_pflegev_beitr_arbeitnehmer_m","ges_pflegev_beitr_satz_arbeitnehmer"])
n_before=sum(len(v) for v in TIME_DEPENDENT_FUNCTIONS.values())
f=functions["ges_pflegev_beitr_satz_arbeitnehmer"]
print(f.__name__, getattr(m,f.__name__) is f)
vf=make_vectorizable(f,"numpy")
print("module attr rebound:", getattr(m,f.__name__) is not f, "registry", n_before, sum(len(v) for v in TIME_DEPENDENT_FUNCTIONS.values()), "numpy in module globals", "numpy" in vars(m))
params2, functions2 = set_up_policy_environment("2022-01-01")
print("env picks up rewritten:", functions2["ges_pflegev_beitr_satz_arbeitnehmer"] is not f)
r2 = compute_taxes_and_transfers(df, params2, functions2, targets=["ges_pflegev_beitr_arbeitnehmer_m","ges_pflegev_beitr_satz_arbeitnehmer"])
print(r1); print(r2)

from lib import *
from pop import gen_population
import collections
rng=np.random.default_rng(21)
date="2023-07-01"
params, functions = set_up_policy_environment(date)
df=gen_population(rng, n_hh=5, year=2023)
compute_taxes_and_transfers(df,params,functions)
stats=collections.Counter(); slips=[]
def expect_raise(tag, d2, **kw):
    try:
        compute_taxes_and_transfers(d2,params,functions,**kw)
        stats[(tag,"SLIP")]+=1; slips.append(tag)
    except Exception as e:
        stats[(tag,type(e).__name__)]+=1
n=len(df)
for i in range(n):
    for fk in ["p_id_ehepartner","p_id_einstandspartner","p_id_elternteil_1","p_id_elternteil_2"]:
        d2=df.copy(); d2.loc[i,fk]=d2.loc[i,"p_id"]; expect_raise("self:"+fk,d2)
        d2=df.copy(); d2.loc[i,fk]=9999; expect_raise("missing:"+fk,d2)
        d2=df.copy(); d2.loc[i,fk]=-7; # negative other than -1: allowed? 
    d2=df.copy(); d2.loc[i,"p_id"]=d2.loc[(i+1)%n,"p_id"]; expect_raise("dup_pid",d2)
    for c in [c for c in df.columns if c.endswith("_hh")]:
        if (df.hh_id==df.hh_id[i]).sum()>1:
            d2=df.copy(); v=d2.loc[i,c]; d2.loc[i,c]=(not v) if isinstance(v,(bool,np.bool_)) else v+1; expect_raise("vary:"+c,d2)
    for c in ["alter","hh_id","geburtsjahr","mietstufe"]:
        d2=df.copy(); d2[c]=d2[c].astype(float); d2.loc[i,c]+=0.5; expect_raise("frac:"+c,d2)
    for c in ["kind","rentner","wohnort_ost"]:
        d2=df.copy(); d2[c]=d2[c].astype(int); d2.loc[i,c]=2; expect_raise("bool2:"+c,d2)
d2=df.drop(columns=["p_id"]); expect_raise("no_pid",d2)
for c in ["alter","bruttolohn_m","hh_id","kind","wohnort_ost"]:
    d2=df.drop(columns=[c]); expect_raise("missingcol:"+c,d2)
d2=pd.concat([df,df[["alter"]]],axis=1); expect_raise("dupcol",d2)
# spouses contradictory
m=df[df.p_id_ehepartner>=0].index
if len(m):
    d2=df.copy(); d2.loc[m[0],"gemeinsam_veranlagt"]=not d2.loc[m[0],"gemeinsam_veranlagt"]; expect_raise("gv",d2)
for k,v in sorted(stats.items()): print(k,v)

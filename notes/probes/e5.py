from lib import *
from pop import gen_population
import sys, traceback, collections
rng=np.random.default_rng(int(sys.argv[1]) if len(sys.argv)>1 else 0)
date=sys.argv[2] if len(sys.argv)>2 else "2023-07-01"
params, functions = set_up_policy_environment(date)
bad=collections.Counter()
for it in range(15):
    df=gen_population(rng, n_hh=8, year=int(date[:4]), corner=True)
    try:
        res,nodes,roots=sim_all(df,params,functions)
    except Exception as e:
        print("EXC", type(e).__name__, str(e)[:300]); traceback.print_exc(limit=3); continue
    for c in res.columns:
        v=res[c]
        if v.dtype.kind=='f':
            if not np.isfinite(v).all(): bad[("nonfinite",c)]+=1
        if c in DEFAULT_TARGETS and (v<0).any(): bad[("neg",c)]+=1
    missing=[r for r in roots if r not in df.columns and not r.endswith("_params")]
    if missing: print("missing roots", missing)
print(len(nodes), bad)

from lib import *
from pop import gen_population
import sys, collections
rng=np.random.default_rng(4)
date="2021-01-01"
params, functions = set_up_policy_environment(date)
df=gen_population(rng, n_hh=8, year=2021)
res,nodes,roots=sim_all(df,params,functions)
stats=collections.Counter()
for n in nodes:
    try:
        r2=compute_taxes_and_transfers(df,params,functions,targets=[n])
    except Exception as e:
        stats["exc"]+=1; print("EXC",n,type(e).__name__,str(e)[:150].replace("\n"," ")); continue
    if list(r2.columns)!=[n] or len(r2)!=len(df): print("SHAPE", n, r2.columns)
    a=res[n].values; b=r2[n].values
    if a.dtype!=b.dtype or not np.array_equal(a,b,equal_nan=(a.dtype.kind=='f')): stats["diff"]+=1; print("DIFF",n,a.dtype,b.dtype)
    else: stats["ok"]+=1
print(stats)
# all suffixed potential targets not in nodes: e.g. x_hh for any individual-level x

import time, warnings
warnings.filterwarnings("ignore")
t=time.time()
import gettsim
from gettsim import set_up_policy_environment, compute_taxes_and_transfers, create_synthetic_data
print("import", time.time()-t)
t=time.time()
params, functions = set_up_policy_environment("2023-07-01")
print("env", time.time()-t, len(functions))
df = create_synthetic_data(n_adults=2, n_children=2, specs_heterogeneous={"bruttolohn_m": [[1000.0*i, 0, 0,0] for i in range(5)]}, policy_year=2023)
print(df.shape)
t=time.time()
res = compute_taxes_and_transfers(df, params, functions, debug=True)
print("compute", time.time()-t, res.shape)
print(res[["p_id","hh_id","eink_st_y_sn","kindergeld_m","arbeitsl_geld_2_m_bg","wohngeld_m_wthh","kinderzuschl_m_bg"]])

from lib import *
from pop import gen_population
import sys, collections
rng=np.random.default_rng(int(sys.argv[1])); date=sys.argv[2]
params, functions = set_up_policy_environment(date)
bad=collections.Counter(); n_alg=n_wg=n_kiz=n_gs=0
sv=params["sozialv_beitr"]
for it in range(30):
    df=gen_population(rng, n_hh=10, year=int(date[:4]), corner=(it%3==0))
    # lower incomes to hit benefits
    if it%2==0: df["bruttolohn_m"]=df["bruttolohn_m"]*rng.choice([0,0.2,0.5,1],len(df)); df["vermögen_bedürft"]=0.0
    res,nodes,roots=sim_all(df,params,functions)
    R=pd.concat([df.set_index(np.arange(len(df))), res[[c for c in res if c not in df]]],axis=1)
    eps=1e-9
    alg=R.arbeitsl_geld_2_m_bg>eps; wg=R.wohngeld_m_wthh>eps; kiz=R.kinderzuschl_m_bg>eps; gs=R.grunds_im_alter_m_eg>eps
    n_alg+=alg.sum(); n_wg+=wg.sum(); n_kiz+=kiz.sum(); n_gs+=gs.sum()
    if (alg&wg).any(): bad["C17 alg2&wohngeld"]+=1
    if (alg&kiz).any(): bad["C17 alg2&kiz"]+=1
    if (gs&(alg|wg|kiz)).any(): bad["C17 grunds & other"]+=1
    if R.groupby("bg_id").wthh_id.nunique().max()>1: bad["C17 bg split across wthh"]+=1
    need_cov=(R.arbeitsl_geld_2_eink_m_bg+R._kinderzuschl_nach_vermög_check_m_bg>=R.arbeitsl_geld_2_regelbedarf_m_bg)|(R.arbeitsl_geld_2_eink_m_bg+R._kinderzuschl_nach_vermög_check_m_bg+R.wohngeld_anspruchshöhe_m_bg>=R.arbeitsl_geld_2_regelbedarf_m_bg)
    if (kiz&~need_cov).any(): bad["C17 kiz without coverage"]+=1
    # caps
    if (R.arbeitsl_geld_2_m_bg>R.arbeitsl_geld_2_vor_vorrang_m_bg+eps).any(): bad["cap alg2>vor_vorrang"]+=1
    if (R.arbeitsl_geld_2_vor_vorrang_m_bg>R.arbeitsl_geld_2_regelbedarf_m_bg+eps).any(): bad["cap vorvorrang>bedarf"]+=1
    if (R.wohngeld_m_wthh>R.wohngeld_anspruchshöhe_m_wthh+eps).any(): bad["cap wohngeld"]+=1
    if (R.kinderzuschl_m_bg>R._kinderzuschl_nach_vermög_check_m_bg+eps).any(): bad["cap kiz1"]+=1
    if (R._kinderzuschl_nach_vermög_check_m_bg>R._kinderzuschl_vor_vermög_check_m_bg+eps).any(): bad["cap kiz2"]+=1
    if (R._kinderzuschl_vor_vermög_check_m_bg>R._kinderzuschl_anz_kinder_anspruch_bg*params["kinderzuschl"]["maximum"]+eps).any(): bad["cap kiz3"]+=1
    rv=sv["beitr_satz"]["ges_rentenv"]; ceil=np.where(R.wohnort_ost, sv["beitr_bemess_grenze_m"]["ges_rentenv"]["ost"], sv["beitr_bemess_grenze_m"]["ges_rentenv"]["west"])
    if (R.ges_rentenv_beitr_arbeitnehmer_m>rv*ceil+eps).any(): bad["cap rentenv"]+=1
    av=sv["beitr_satz"]["arbeitsl_v"]
    if (R.arbeitsl_v_beitr_arbeitnehmer_m>av*ceil+eps).any(): bad["cap alv"]+=1
    eg=params["elterngeld"]
    if "elterngeld_m" in R and (R.elterngeld_m > R.elterngeld_basisbetrag_m+R.elterngeld_geschwisterbonus_m+R.elterngeld_mehrlingsbonus_m+0.01).any(): bad["cap elterngeld components"]+=1
    if (R.elterngeld_basisbetrag_m>eg["höchstbetrag"]+eps).any(): bad["cap elterngeld max"]+=1
    top=params["eink_st"]["eink_st_tarif"]["rates"][0].max()
    if (R.eink_st_y_sn > top*np.maximum(R._zu_verst_eink_mit_kinderfreib_y_sn, R._zu_verst_eink_ohne_kinderfreib_y_sn)+1).any(): bad["cap eink_st"]+=1
    sr=params["soli_st"]["soli_st"]["rates"][0,-1]
    if (R.soli_st_y_sn > sr*(R.eink_st_mit_kinderfreib_y_sn+R.abgelt_st_y_sn)+0.01*R.anz_personen_sn).any(): bad["cap soli"]+=1
print(date,"recipients alg2/wg/kiz/gs",n_alg,n_wg,n_kiz,n_gs,dict(bad))

from lib import *
from pop import gen_population
import sys, collections
rng=np.random.default_rng(int(sys.argv[1]))
date=sys.argv[2]
params, functions = set_up_policy_environment(date)
stats=collections.Counter(); worst=collections.defaultdict(float)
def partition(ids, pid):
    d=collections.defaultdict(set)
    for i,p in zip(ids,pid): d[i].add(p)
    return {frozenset(v) for v in d.values()}
for it in range(12):
    df=gen_population(rng, n_hh=8, year=int(date[:4]), corner=True)
    res,nodes,roots=sim_all(df,params,functions)
    a=res.assign(p_id=df.p_id.values).set_index("p_id").sort_index()
    # permutation + weird index
    perm=rng.permutation(len(df)); df2=df.iloc[perm].copy(); df2.index=rng.permutation(1000)[:len(df2)]
    res2,_,_=sim_all(df2,params,functions)
    b=res2.assign(p_id=df2.p_id.values).set_index("p_id").sort_index()
    for c in a.columns:
        if c.endswith("_id"):
            if partition(a[c].values,a.index)!=partition(b[c].values,b.index): stats[("PERM-partition",c)]+=1
            continue
        x=a[c].values; y=b[c].values
        if x.dtype!=y.dtype: stats[("dtype",c)]+=1
        d=np.abs(x.astype(float)-y.astype(float)); 
        if x.dtype.kind=="M": continue
        m=np.nanmax(d)
        if m>0: worst[("perm",c)]=max(worst[("perm",c)],m)
    # separability: split households in two halves
    hh=df.hh_id.unique(); A=df[df.hh_id.isin(hh[:len(hh)//2])].reset_index(drop=True)
    resA,_,_=sim_all(A,params,functions)
    ra=resA.assign(p_id=A.p_id.values).set_index("p_id").sort_index(); ja=a.loc[ra.index]
    for c in ra.columns:
        if c.endswith("_id"):
            if partition(ra[c].values,ra.index)!=partition(ja[c].values,ja.index): stats[("SEP-partition",c)]+=1
            continue
        x=ra[c].values; y=ja[c].values
        if x.dtype.kind=="M": continue
        if x.dtype!=y.dtype: stats[("sep-dtype",c)]+=1
        m=np.nanmax(np.abs(x.astype(float)-y.astype(float)))
        if m>0: worst[("sep",c)]=max(worst[("sep",c)],m)
print(date, dict(stats)); print({k:v for k,v in worst.items()})

"""prototype forward-fold reference resolver for parameters (raw YAML -> values at date)"""
import datetime, copy, yaml, numpy as np
from pathlib import Path
META={"note","reference","deviation_from","access_different_date"}
class Ref:
    def __init__(self, param_dir):
        self.dir=Path(param_dir); self.raw={}
    def load(self,g):
        if g not in self.raw:
            self.raw[g]=yaml.safe_load((self.dir/f"{g}.yaml").read_text(encoding="utf-8"))
        return self.raw[g]
    def entries(self,g,p):
        raw=self.load(g)[p]
        return sorted((k,v) for k,v in raw.items() if isinstance(k,datetime.date))
    @staticmethod
    def merge(base, dev):
        # deep merge: leaves of dev overwrite/insert into base
        if not isinstance(dev,dict): return copy.deepcopy(dev)
        out=copy.deepcopy(base) if isinstance(base,dict) else {}
        for k,v in dev.items():
            out[k]=Ref.merge(out.get(k),v) if isinstance(v,dict) else copy.deepcopy(v)
        return out
    def value(self,g,p,date):
        """fold forward over dated entries up to date"""
        ent=self.entries(g,p)
        past=[(d,e) for d,e in ent if d<=date]
        if not past:
            # not yet existing; special: first entry deviates from other param -> take other param if it exists
            d0,e0=ent[0]
            dv=e0.get("deviation_from") if isinstance(e0,dict) else None
            if dv and "." in dv:
                g2,p2=dv.split(".")
                return self.value(g2,p2,date)
            return None
        state=None; MISSING=object()
        for d,e in past:
            vals={k:v for k,v in e.items() if k not in META}
            dv=e.get("deviation_from")
            if "scalar" in e:
                state=("scalar", np.inf if e["scalar"]=="inf" else e["scalar"]); continue
            if dv=="previous":
                assert state is not None and state[0]=="dict"
                state=("dict", self.merge(state[1], vals))
            elif dv and "." in dv:
                state=("dev_other", dv, vals)   # resolved lazily at query date
            else:
                state=("dict", copy.deepcopy(vals))
        if state[0]=="scalar": return state[1]
        if state[0]=="dev_other":
            g2,p2=state[1].split("."); base=self.value(g2,p2,date)
            return self.merge(base,state[2])
        return state[1]
